//! A case = a history of programs + layouts + fault plan. Running a case means
//! running the real pipeline for every program over one persistent simulated
//! store, then running the reference model as an online checker.

use std::collections::{BTreeMap, BTreeSet};

use rusty_parser::Program;
use serde::{Deserialize, Serialize};

use crate::dsl::*;
use crate::emit::{Emitted, Layout, emit};
use crate::model::{Class, Model, ModelReport};
use crate::monitor::MonitorReport;
use crate::runner::{Outcome, parse, run_program};
use crate::world::{Fault, FaultAddr, FaultKind, FsStore, IoKind, OpClass, SeamKind, World};

#[derive(Clone, Debug, Serialize, Deserialize)]
pub struct PlanItem {
    pub prog: usize,
    pub fault: FaultSer,
}

/// Serializable mirror of `Fault`.
#[derive(Clone, Debug, PartialEq, Eq, Serialize, Deserialize)]
pub struct FaultSer {
    pub stmt: Option<StmtId>,
    pub occ: u32,
    pub ordinal: u32,
    pub class: String,
    pub seam: String,
    pub kind: String,
    pub arg: u32,
    /// with `stmt` = None: the n-th operation and every one after it
    #[serde(default)]
    pub permanent: bool,
}

pub fn class_name(c: OpClass) -> &'static str {
    match c {
        OpClass::Write => "write",
        OpClass::Flush => "flush",
        OpClass::Read => "read",
        OpClass::Seek => "seek",
        OpClass::Open => "open",
        OpClass::Remove => "remove",
        OpClass::Rename => "rename",
    }
}

pub fn seam_name(s: SeamKind) -> &'static str {
    match s {
        SeamKind::Screen => "screen",
        SeamKind::Lpt1 => "lpt1",
        SeamKind::Stdin => "stdin",
        SeamKind::File => "file",
        SeamKind::Fs => "fs",
    }
}

impl FaultSer {
    pub fn from_fault(f: &Fault) -> Self {
        let (stmt, occ, ordinal) = match f.addr {
            FaultAddr::Stmt { stmt, occ, ordinal } => (Some(stmt), occ, ordinal),
            FaultAddr::Global { nth } => (None, 0, nth),
            FaultAddr::From { nth } => (None, 0, nth),
        };
        let permanent = matches!(f.addr, FaultAddr::From { .. });
        let (kind, arg): (&str, u32) = match f.kind {
            FaultKind::ShortWrite(p) => ("short_write", p as u32),
            FaultKind::WriteZero => ("write_zero", 0),
            FaultKind::Interrupted => ("interrupted", 0),
            FaultKind::Eof => ("eof", 0),
            FaultKind::SubstByte(b) => ("subst_byte", b as u32),
            FaultKind::ShortRead => ("short_read", 0),
            FaultKind::Error(k) => (
                match k {
                    IoKind::BrokenPipe => "err_broken_pipe",
                    IoKind::StorageFull => "err_storage_full",
                    IoKind::Other => "err_other",
                    IoKind::PermissionDenied => "err_permission_denied",
                    IoKind::NotFound => "err_not_found",
                    IoKind::IsADirectory => "err_is_a_directory",
                    IoKind::TimedOut => "err_timed_out",
                    IoKind::InvalidData => "err_invalid_data",
                },
                0,
            ),
        };
        FaultSer {
            stmt,
            occ,
            ordinal,
            class: class_name(f.class).into(),
            seam: seam_name(f.seam).into(),
            kind: kind.into(),
            arg,
            permanent,
        }
    }

    pub fn to_fault(&self) -> Fault {
        let class = match self.class.as_str() {
            "write" => OpClass::Write,
            "flush" => OpClass::Flush,
            "read" => OpClass::Read,
            "seek" => OpClass::Seek,
            "open" => OpClass::Open,
            "remove" => OpClass::Remove,
            _ => OpClass::Rename,
        };
        let seam = match self.seam.as_str() {
            "screen" => SeamKind::Screen,
            "lpt1" => SeamKind::Lpt1,
            "stdin" => SeamKind::Stdin,
            "file" => SeamKind::File,
            _ => SeamKind::Fs,
        };
        let kind = match self.kind.as_str() {
            "short_write" => FaultKind::ShortWrite(self.arg as u8),
            "write_zero" => FaultKind::WriteZero,
            "interrupted" => FaultKind::Interrupted,
            "eof" => FaultKind::Eof,
            "subst_byte" => FaultKind::SubstByte(self.arg as u8),
            "short_read" => FaultKind::ShortRead,
            "err_broken_pipe" => FaultKind::Error(IoKind::BrokenPipe),
            "err_storage_full" => FaultKind::Error(IoKind::StorageFull),
            "err_permission_denied" => FaultKind::Error(IoKind::PermissionDenied),
            "err_not_found" => FaultKind::Error(IoKind::NotFound),
            "err_is_a_directory" => FaultKind::Error(IoKind::IsADirectory),
            "err_timed_out" => FaultKind::Error(IoKind::TimedOut),
            "err_invalid_data" => FaultKind::Error(IoKind::InvalidData),
            _ => FaultKind::Error(IoKind::Other),
        };
        let addr = match self.stmt {
            Some(stmt) => FaultAddr::Stmt {
                stmt,
                occ: self.occ,
                ordinal: self.ordinal,
            },
            None if self.permanent => FaultAddr::From { nth: self.ordinal },
            None => FaultAddr::Global { nth: self.ordinal },
        };
        Fault {
            addr,
            class,
            seam,
            kind,
        }
    }
}

#[derive(Clone, Debug, Serialize, Deserialize)]
pub struct Case {
    pub history: History,
    pub layouts: Vec<Layout>,
    pub plan: Vec<PlanItem>,
}

pub struct Prepared {
    pub emitted: Vec<Emitted>,
    pub programs: Vec<Program>,
}

/// Emits and parses every program of the history. Err = the parser rejected one (or
/// failed internally).
pub fn prepare(history: &History, layouts: &[Layout]) -> Result<Prepared, (usize, Outcome, String)> {
    let mut emitted = vec![];
    let mut programs = vec![];
    for (i, sc) in history.programs.iter().enumerate() {
        let layout = &layouts[i.min(layouts.len() - 1)];
        let em = emit(sc, layout);
        let parsed = if layout.via_file {
            crate::runner::parse_via_file(&em.text)
        } else {
            parse(&em.text)
        };
        match parsed {
            Ok(p) => programs.push(p),
            Err(o) => return Err((i, o, em.text)),
        }
        emitted.push(em);
    }
    Ok(Prepared { emitted, programs })
}

#[derive(Clone, Debug)]
pub struct Found {
    pub property: &'static str,
    pub class: Class,
    /// finer key used to match known findings (e.g. the monitor rule or the panic site)
    pub key: String,
    pub prog: usize,
    pub stmt: Option<StmtId>,
    pub detail: String,
}

#[derive(Clone, Debug, Default)]
pub struct ProgStats {
    pub outcome: String,
    pub digest: u64,
    pub instr: u64,
    pub io_calls: u64,
    pub events: usize,
    pub fired: Vec<(OpClass, SeamKind, FaultKind)>,
    pub errors_dispatched: u64,
    pub stopped_early: Option<String>,
    pub killed: bool,
    pub writes_after_kill: bool,
    /// instruction stamps of the file and file-system operations (only when sites are collected)
    pub io_instr: Vec<u64>,
}

pub struct CaseRun {
    pub found: Vec<Found>,
    pub stats: Vec<ProgStats>,
    pub monitor: MonitorReport,
    pub model: Vec<ModelReport>,
    /// candidate fault sites observed (only filled when asked)
    pub sites: Vec<(usize, Site)>,
    pub rejected_by_linter: bool,
}

/// An operation of the fault-free run that a fault can be attached to.
#[derive(Clone, Copy, Debug, PartialEq, Eq, PartialOrd, Ord)]
pub struct Site {
    pub stmt: StmtId,
    pub occ: u32,
    pub class: OpClass,
    pub seam: SeamKind,
    pub ordinal: u32,
}

pub const BUDGET: u64 = 120_000;

pub fn initial_store(h: &History) -> FsStore {
    let mut fs = FsStore::default();
    for (n, c) in &h.files {
        fs.put(n, c);
    }
    fs.dirs = h.dirs.clone();
    fs
}

pub fn run_case(
    prep: &Prepared,
    history: &History,
    plan: &[PlanItem],
    collect_sites: bool,
    use_model: bool,
) -> CaseRun {
    let mut out = CaseRun {
        found: vec![],
        stats: vec![],
        monitor: MonitorReport::default(),
        model: vec![],
        sites: vec![],
        rejected_by_linter: false,
    };
    crate::watch::begin_run(plan);
    let _watch = crate::watch::Guard;
    let mut fs = initial_store(history);
    let mut model_store: BTreeMap<String, Vec<u8>> = fs.snapshot();
    for (pi, sc) in history.programs.iter().enumerate() {
        let em = &prep.emitted[pi];
        let faults: Vec<Fault> = plan
            .iter()
            .filter(|p| p.prog == pi && p.fault.kind != "quota" && p.fault.kind != "kill")
            .map(|p| p.fault.to_fault())
            .collect();
        // a quota on the bytes the file system accepts during this program run
        let quota: Option<usize> = plan
            .iter()
            .find(|p| p.prog == pi && p.fault.kind == "quota")
            .map(|p| p.fault.arg as usize);
        let mut world0 = World::new(em.spans.clone(), sc.stdin.clone(), fs.clone(), faults);
        for (row, c0, c1) in &em.code_lines {
            world0.code_lines.insert(*row, (*c0, *c1));
        }
        world0.fs_quota = quota;
        for ((id, _k), (row, c0, c1)) in &em.header_spans {
            world0.header_spans.push(crate::world::Span {
                stmt: *id,
                row: *row,
                col_start: *c0,
                col_end: *c1,
            });
        }
        // a crash point: the run is killed when this many instructions have been executed
        world0.kill_at = plan
            .iter()
            .find(|p| p.prog == pi && p.fault.kind == "kill")
            .map(|p| p.fault.arg as u64);
        let world = world0.shared();
        let r = run_program(&prep.programs[pi], &world, BUDGET);
        let w = world.borrow();
        let mut st = ProgStats {
            outcome: r.outcome.short(),
            digest: w.digest(),
            instr: w.instr,
            io_calls: w.io_calls,
            events: w.log.len(),
            fired: w
                .fired
                .iter()
                .map(|f| (f.fault.class, f.fault.seam, f.fault.kind))
                .collect(),
            errors_dispatched: r.monitor.error_dispatches,
            stopped_early: None,
            killed: w.killed,
            writes_after_kill: w.writes_after_kill_discarded,
            io_instr: if collect_sites {
                use crate::world::EventKind as K;
                w.log
                    .iter()
                    .filter(|ev| match &ev.kind {
                        K::Write { seam, .. } | K::Flush { seam, .. } | K::Seek { seam, .. } => {
                            seam.kind() == SeamKind::File
                        }
                        K::Open { .. } | K::Close { .. } | K::Remove { .. } | K::Rename { .. } => true,
                        _ => false,
                    })
                    .map(|ev| ev.instr)
                    .collect()
            } else {
                vec![]
            },
        };
        if let Outcome::LintError(_) = r.outcome {
            out.rejected_by_linter = true;
            out.stats.push(st);
            return out;
        }
        // ---- C08: internal failure ----
        if let Outcome::Panic {
            stage,
            message,
            location,
        } = &r.outcome
        {
            let stem: String = message.chars().take(60).collect();
            out.found.push(Found {
                property: "C08",
                class: Class::Internal,
                key: format!("{}|{}", location, stem),
                prog: pi,
                stmt: w.cur_stmt.map(|s| s.0),
                detail: format!(
                    "internal failure in {} at {}: {} (while executing statement {:?})",
                    stage, location, message, w.cur_stmt
                ),
            });
        }
        // ---- C11: positions of the instructions ----
        if let Some((pc, row, col)) = w.pos_off_table {
            out.found.push(Found {
                property: "C11",
                class: Class::Position,
                key: "off_table".into(),
                prog: pi,
                stmt: None,
                detail: format!(
                    "instruction {} carries position {}:{}, which is not inside the text of any statement of the program ({} lines)",
                    pc, row, col, em.rows
                ),
            });
        }
        // ---- C15 I1: a pop on an empty stack surfaces as a panic of the VM ----
        if let Outcome::Panic { stage: "interpret", message, location } = &r.outcome {
            let stack_words = [
                "underflow",
                "Expected normal state",
                "Expected argument state",
                "Expected state with arguments",
                "removal index",
                "Should have a VarPath",
                "Should have function result",
                "Not collecting arguments",
            ];
            let regs = location.contains("interpreter/main.rs") && message.contains("Option::unwrap()");
            if regs || stack_words.iter().any(|w| message.contains(w)) {
                out.found.push(Found {
                    property: "C15",
                    class: Class::Stack,
                    key: format!("I1:{}", message.chars().take(40).collect::<String>()),
                    prog: pi,
                    stmt: None,
                    detail: format!(
                        "a VM stack was popped while empty (or a call frame was missing): {} at {}",
                        message, location
                    ),
                });
            }
        }
        // ---- C15: stack discipline / structure ----
        for v in &r.monitor.violations {
            out.found.push(Found {
                property: "C15",
                class: Class::Stack,
                key: match v.which {
                    Some(i) => format!("{}:{}", v.kind, crate::monitor::DEPTH_NAMES[i]),
                    None => v.kind.to_string(),
                },
                prog: pi,
                stmt: None,
                detail: v.detail.clone(),
            });
        }
        out.monitor.merge(r.monitor.clone());
        if collect_sites {
            let mut fail_stmts: BTreeSet<StmtId> = BTreeSet::new();
            sc.for_each(&mut |st| {
                if let StmtKind::Fail(_) = st.kind {
                    fail_stmts.insert(st.id);
                }
            });
            // the statements of the error handler (after the H1 label of the main module):
            // an error inside a handler is not defined, a fault there only wastes the run
            let mut in_handler = false;
            for st in &sc.main {
                if let StmtKind::Label(l) = &st.kind {
                    if l.eq_ignore_ascii_case("H1") || l.eq_ignore_ascii_case("H2") {
                        in_handler = true;
                    }
                }
                if in_handler {
                    fail_stmts.insert(st.id);
                    if let StmtKind::IfLine { then_s, else_s, .. } = &st.kind {
                        fail_stmts.insert(then_s.id);
                        if let Some(e) = else_s {
                            fail_stmts.insert(e.id);
                        }
                    }
                }
            }
            let mut counts: BTreeMap<(StmtId, u32, OpClass, SeamKind), u32> = BTreeMap::new();
            for ev in &w.log {
                use crate::world::EventKind as K;
                let (class, seam) = match &ev.kind {
                    K::Write { seam, .. } => (OpClass::Write, seam.kind()),
                    K::Flush { seam, .. } => (OpClass::Flush, seam.kind()),
                    K::Read { seam, .. } => (OpClass::Read, seam.kind()),
                    K::Seek { seam, .. } => (OpClass::Seek, seam.kind()),
                    K::Open { .. } => (OpClass::Open, SeamKind::Fs),
                    K::Remove { .. } => (OpClass::Remove, SeamKind::Fs),
                    K::Rename { .. } => (OpClass::Rename, SeamKind::Fs),
                    _ => continue,
                };
                if let Some((s, o)) = ev.stmt {
                    if fail_stmts.contains(&s) {
                        // in-language failing statements are not environment fault sites
                        continue;
                    }
                    let c = counts.entry((s, o, class, seam)).or_insert(0);
                    out.sites.push((
                        pi,
                        Site {
                            stmt: s,
                            occ: o,
                            class,
                            seam,
                            ordinal: *c,
                        },
                    ));
                    *c += 1;
                }
            }
        }
        // ---- model ----
        if use_model {
            let model = Model::new(
                sc,
                em,
                &w,
                &r.outcome,
                model_store.clone(),
                history.dirs.clone(),
            );
            let (rep, store_after) = model.run();
            st.stopped_early = rep.stopped_early.clone();
            if let Some(d) = &rep.divergence {
                out.found.push(Found {
                    property: d.class.property(),
                    class: d.class,
                    key: format!("{:?}", d.class),
                    prog: pi,
                    stmt: d.stmt,
                    detail: d.detail.clone(),
                });
            } else if rep.stopped_early.is_none() && !matches!(r.outcome, Outcome::Panic { .. }) {
                // final store must agree (names and contents)
                let actual = w.fs.snapshot();
                if actual != store_after {
                    let mut detail = String::new();
                    let names: BTreeSet<&String> =
                        actual.keys().chain(store_after.keys()).collect();
                    for n in names {
                        let a = actual.get(n);
                        let m = store_after.get(n);
                        if a != m {
                            detail = format!(
                                "file {:?}: model {:?}, implementation {:?}",
                                n,
                                m.map(|x| String::from_utf8_lossy(x).to_string()),
                                a.map(|x| String::from_utf8_lossy(x).to_string())
                            );
                            break;
                        }
                    }
                    // RANDOM files: contents are only checked through GET
                    let random_names: BTreeSet<String> = random_file_names(sc);
                    let differs_elsewhere = actual
                        .iter()
                        .any(|(k, v)| !random_names.contains(k) && store_after.get(k) != Some(v))
                        || store_after
                            .keys()
                            .any(|k| !random_names.contains(k) && !actual.contains_key(k));
                    if differs_elsewhere {
                        out.found.push(Found {
                            property: "C18",
                            class: Class::FileData,
                            key: "FileData".into(),
                            prog: pi,
                            stmt: None,
                            detail: format!("store after the run differs: {}", detail),
                        });
                    }
                }
            }
            let diverged_or_stopped = rep.divergence.is_some() || rep.stopped_early.is_some();
            out.model.push(rep);
            // the next program starts from the implementation's store; so does the model
            // (a divergence has been reported already if they differ)
            model_store = w.fs.snapshot();
            let _ = diverged_or_stopped;
        } else {
            model_store = w.fs.snapshot();
        }
        fs = w.fs.clone();
        out.stats.push(st);
    }
    out
}

fn random_file_names(sc: &Scenario) -> BTreeSet<String> {
    let mut s = BTreeSet::new();
    sc.for_each(&mut |st| {
        if let StmtKind::Open {
            name,
            mode: Mode::Random,
            ..
        } = &st.kind
        {
            s.insert(name.clone());
        }
    });
    s
}

// ----------------------------------------------------------------------
// trigger features of a scenario (vocabulary of known findings)
// ----------------------------------------------------------------------

pub fn triggers(h: &History) -> BTreeSet<&'static str> {
    let mut t = BTreeSet::new();
    for sc in &h.programs {
        let proc_prints: BTreeSet<String> = sc
            .procs
            .iter()
            .filter(|p| {
                let mut prints = false;
                fn walk(l: &[Stmt], f: &mut bool) {
                    for s in l {
                        if matches!(
                            s.kind,
                            StmtKind::Print { .. } | StmtKind::Fail(FailKind::PrintThenDivZero)
                        ) {
                            *f = true;
                        }
                        for b in children(&s.kind) {
                            walk(b, f);
                        }
                        if let StmtKind::IfLine { then_s, else_s, .. } = &s.kind {
                            walk(std::slice::from_ref(then_s), f);
                            if let Some(e) = else_s {
                                walk(std::slice::from_ref(e), f);
                            }
                        }
                    }
                }
                walk(&p.body, &mut prints);
                prints
            })
            .map(|p| p.name.to_uppercase())
            .collect();
        scan(&sc.main, &mut t, Ctx::default(), &proc_prints);
        for p in &sc.procs {
            scan(
                &p.body,
                &mut t,
                Ctx {
                    in_proc: true,
                    ..Default::default()
                },
                &proc_prints,
            );
        }
        let mut has_resume_next_mode = false;
        sc.for_each(&mut |s| {
            if matches!(s.kind, StmtKind::OnErrorResumeNext) {
                has_resume_next_mode = true;
            }
        });
        if has_resume_next_mode {
            t.insert("on_error_resume_next");
        }
    }
    t
}

#[derive(Clone, Copy, Default)]
struct Ctx {
    in_for: bool,
    in_for_step: bool,
    in_select: bool,
    in_proc: bool,
    in_loop: bool,
}

fn expr_has_call(e: &Expr) -> bool {
    match e {
        Expr::Call(..) => true,
        Expr::Add(a, b) | Expr::Sub(a, b) | Expr::Mul(a, b) | Expr::Cmp(_, a, b) => {
            expr_has_call(a) || expr_has_call(b)
        }
        Expr::Paren(x) | Expr::Quot(x) => expr_has_call(x),
        _ => false,
    }
}

fn expr_calls(e: &Expr, out: &mut Vec<String>) {
    match e {
        Expr::Call(n, args) => {
            out.push(n.to_uppercase());
            for a in args {
                expr_calls(a, out);
            }
        }
        Expr::Add(a, b) | Expr::Sub(a, b) | Expr::Mul(a, b) | Expr::Cmp(_, a, b) => {
            expr_calls(a, out);
            expr_calls(b, out);
        }
        Expr::Paren(x) | Expr::Quot(x) => expr_calls(x, out),
        _ => {}
    }
}

fn scan(
    list: &[Stmt],
    t: &mut BTreeSet<&'static str>,
    ctx: Ctx,
    proc_prints: &BTreeSet<String>,
) {
    for s in list {
        match &s.kind {
            StmtKind::Goto(_) => {
                if ctx.in_for {
                    t.insert("goto_out_of_for");
                }
                if ctx.in_select {
                    t.insert("goto_out_of_select");
                }
                if ctx.in_loop {
                    t.insert("goto_out_of_loop");
                }
            }
            StmtKind::ExitProc => {
                if ctx.in_for {
                    t.insert("exit_proc_in_for");
                }
            }
            StmtKind::Fail(FailKind::DivZeroMid) => {
                t.insert("err_in_expression_mid");
            }
            StmtKind::Fail(FailKind::Subscript) => {
                t.insert("err_subscript");
            }
            StmtKind::Fail(_) => {
                t.insert("fail");
            }
            StmtKind::Print { items, dev, .. } => {
                let mut calls = vec![];
                for it in items {
                    if let PItem::E(e) = it {
                        expr_calls(e, &mut calls);
                    }
                }
                if calls.iter().any(|c| proc_prints.contains(c)) {
                    t.insert("print_item_calls_printing_function");
                }
                if !calls.is_empty() {
                    t.insert("print_item_calls_function");
                }
                let _ = dev;
            }
            StmtKind::CallSub { args, .. } => {
                if args.iter().any(expr_has_call) {
                    t.insert("call_in_call_args");
                }
            }
            StmtKind::For { step, body, .. } => {
                let mut c = ctx;
                c.in_for = true;
                c.in_loop = true;
                if step.is_some() {
                    c.in_for_step = true;
                    if body.iter().any(|b| b.kind.is_block()) {
                        t.insert("block_in_for_step");
                    }
                    if body
                        .iter()
                        .any(|b| matches!(b.kind, StmtKind::Label(_)))
                    {
                        t.insert("label_in_for_step");
                    }
                }
                scan(body, t, c, proc_prints);
                continue;
            }
            StmtKind::While { body, .. } | StmtKind::Do { body, .. } => {
                let mut c = ctx;
                c.in_loop = true;
                scan(body, t, c, proc_prints);
                continue;
            }
            StmtKind::Select { cases, else_b, .. } => {
                let mut c = ctx;
                c.in_select = true;
                for (_, b) in cases {
                    scan(b, t, c, proc_prints);
                }
                if let Some(b) = else_b {
                    scan(b, t, c, proc_prints);
                }
                continue;
            }
            StmtKind::IfLine { then_s, else_s, .. } => {
                scan(std::slice::from_ref(then_s), t, ctx, proc_prints);
                if let Some(e) = else_s {
                    scan(std::slice::from_ref(e), t, ctx, proc_prints);
                }
                if ctx.in_for_step {
                    t.insert("block_in_for_step");
                }
                continue;
            }
            _ => {}
        }
        if s.kind.is_block() && ctx.in_for_step {
            t.insert("block_in_for_step");
        }
        for b in children(&s.kind) {
            scan(b, t, ctx, proc_prints);
        }
    }
}
