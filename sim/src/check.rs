//! Check driver: seeded search over scenarios x layouts x fault plans, oracle
//! filtering per property, known-finding attribution, minimisation, replay
//! files, evidence.

use std::collections::{BTreeMap, BTreeSet};
use std::sync::atomic::{AtomicUsize, Ordering};
use std::sync::{Arc, Mutex};
use std::time::Instant;

use serde::{Deserialize, Serialize};
use serde_json::json;

use crate::case::*;
use crate::dsl::*;
use crate::emit::Layout;
use crate::r#gen::{self as gen_mod, Avoid, Profile};
use crate::model::Class;
use crate::prng::{Rng, mix};
use crate::shrink;
use crate::world::{Fault, FaultAddr, FaultKind, IoKind, OpClass, SeamKind};

pub const DEFAULT_SEED: u64 = 20260924;

#[derive(Clone, Debug, Serialize, Deserialize)]
pub struct KnownFinding {
    pub id: String,
    /// "open" | "fixed"
    pub status: String,
    pub property: String,
    /// violation class / key prefix (e.g. "Stack", "ControlFlow", "Internal")
    pub class: String,
    /// finer key: monitor rule ("I2:register_stack", "S2"), panic site stem; empty = any
    #[serde(default)]
    pub key: String,
    /// trigger feature of the scenario DSL that must be present in the minimised scenario
    #[serde(default)]
    pub trigger: String,
    pub what: String,
    #[serde(default)]
    pub witness: String,
    #[serde(default)]
    pub commit: String,
    /// the line format the brief asks for ("fixed: property=<id> <commit> <what failed>")
    #[serde(default)]
    pub line: String,
}

#[derive(Clone, Debug, Default, Serialize, Deserialize)]
pub struct KnownFile {
    pub findings: Vec<KnownFinding>,
}

pub fn load_known(path: &str) -> KnownFile {
    match std::fs::read_to_string(path) {
        Ok(s) => serde_json::from_str(&s).unwrap_or_else(|e| {
            eprintln!("harness error: cannot parse {}: {}", path, e);
            std::process::exit(2);
        }),
        Err(_) => KnownFile::default(),
    }
}

#[derive(Clone, Debug)]
pub struct CheckCfg {
    pub id: &'static str,
    pub profiles: Vec<Profile>,
    pub tier: String,
    pub seed: u64,
    pub scenarios: usize,
    pub max_single_faults: usize,
    pub multi_fault_plans: usize,
    pub kill_plans: usize,
    pub permanent_plans: usize,
    pub layouts_per_scenario: usize,
    pub threads: usize,
    pub wall_limit_s: u64,
    pub verif_dir: String,
}

#[derive(Clone, Debug, Serialize, Deserialize)]
pub struct Replay {
    pub property: String,
    pub class: String,
    pub key: String,
    pub detail: String,
    pub seed: u64,
    pub scenario_index: usize,
    pub case: Case,
    /// emitted program texts (for the reader; regenerated on replay)
    pub texts: Vec<String>,
    /// raw-program case (corpus / W-IO workloads); `case` is empty then
    #[serde(default)]
    pub raw: Option<crate::raw::RawCase>,
}

#[derive(Default)]
struct Agg {
    scenarios: usize,
    rejected: usize,
    runs: u64,
    nontrivial: BTreeSet<u64>,
    digests: BTreeSet<u64>,
    tuples: BTreeSet<String>,
    instr: u64,
    io_calls: u64,
    fired: BTreeMap<String, u64>,
    fired_by_seam: BTreeMap<String, u64>,
    probes: BTreeMap<String, u64>,
    errors_dispatched: u64,
    model_statements: u64,
    stopped_early: BTreeMap<String, u64>,
    foreign: BTreeMap<String, u64>,
    strict_scenarios: usize,
    tainted_scenarios: usize,
    own_violations: Vec<(usize, Found, Case, bool)>,
    monitor_visits: u64,
    monitor_revisits: u64,
    monitor_calls: u64,
    monitor_halts: u64,
    labels: u64,
    branches: u64,
    samples: Vec<serde_json::Value>,
    determinism_rechecks: u64,
    determinism_failures: Vec<String>,
}

fn fault_kinds_for(class: OpClass, seam: SeamKind) -> Vec<FaultKind> {
    match class {
        OpClass::Write => vec![
            FaultKind::ShortWrite(50),
            FaultKind::WriteZero,
            FaultKind::Interrupted,
            FaultKind::Error(IoKind::StorageFull),
            FaultKind::Error(IoKind::BrokenPipe),
            FaultKind::Error(IoKind::Other),
        ],
        OpClass::Flush => vec![FaultKind::Error(IoKind::Other)],
        OpClass::Read => {
            if seam == SeamKind::Stdin {
                vec![
                    FaultKind::Eof,
                    FaultKind::Interrupted,
                    FaultKind::Error(IoKind::Other),
                    FaultKind::SubstByte(0xff),
                    FaultKind::SubstByte(0),
                ]
            } else {
                vec![
                    FaultKind::Interrupted,
                    FaultKind::Error(IoKind::Other),
                    FaultKind::ShortRead,
                ]
            }
        }
        OpClass::Seek => vec![FaultKind::Error(IoKind::Other)],
        OpClass::Open => vec![
            FaultKind::Error(IoKind::PermissionDenied),
            FaultKind::Error(IoKind::Other),
        ],
        OpClass::Remove | OpClass::Rename => vec![FaultKind::Error(IoKind::PermissionDenied)],
    }
}

pub fn gen_history(profile: Profile, rng: &mut Rng, avoid: &Avoid) -> History {
    match profile {
        Profile::ControlFlow => History {
            programs: vec![gen_mod::gen_control_flow(rng, avoid)],
            files: vec![],
            dirs: vec![],
        },
        Profile::Print => crate::gen_io::gen_print_history(rng, avoid),
        Profile::Files => crate::gen_io::gen_file_history(rng, avoid),
    }
}

fn own(found: &[Found], id: &str) -> Vec<Found> {
    found.iter().filter(|f| f.property == id).cloned().collect()
}

struct JobOut {
    index: usize,
    agg: Agg,
}

fn tuple_key(h: &History, f: &Fault, stats: &[ProgStats]) -> String {
    // (statement kind x fault kind x seam) of a fired single fault
    let mut kind = "?";
    if let FaultAddr::Stmt { stmt, .. } = f.addr {
        for sc in &h.programs {
            sc.for_each(&mut |s| {
                if s.id == stmt {
                    kind = s.kind.name();
                }
            });
        }
    }
    let _ = stats;
    format!("{}|{}|{}", kind, f.kind.name(), seam_name(f.seam))
}

fn one_scenario(cfg: &CheckCfg, index: usize, known: &KnownFile) -> JobOut {
    let mut agg = Agg::default();
    let profile = cfg.profiles[index % cfg.profiles.len()];
    let mut rng = Rng::new(mix(&[cfg.seed, fxhash(cfg.id), index as u64]));
    let mut rng_gen = rng.fork(1);
    let mut rng_layout = rng.fork(2);
    let mut rng_fault = rng.fork(3);
    // open findings define what the strict pool avoids
    let open_triggers: BTreeSet<String> = known
        .findings
        .iter()
        .filter(|k| k.status == "open" && !k.trigger.is_empty() && k.property == cfg.id)
        .map(|k| k.trigger.clone())
        .collect();
    // half of the scenarios are generated avoiding the triggers (strict pool)
    let strict_wanted = index % 4 != 3;
    let avoid = if strict_wanted {
        Avoid {
            goto_out_of_for: open_triggers.contains("goto_out_of_for"),
            block_in_for_step: open_triggers.contains("block_in_for_step"),
            fail_mid_expression: open_triggers.contains("err_in_expression_mid"),
            goto_out_of_select: open_triggers.contains("goto_out_of_select"),
            print_item_calls_printing_function: open_triggers
                .contains("print_item_calls_printing_function"),
            resume_next_mode_with_call_args: open_triggers.contains("on_error_resume_next"),
        }
    } else {
        Avoid::default()
    };
    let history = gen_history(profile, &mut rng_gen, &avoid);
    agg.scenarios = 1;
    let trig = triggers(&history);
    let tainted = trig.iter().any(|t| open_triggers.contains(*t));
    if tainted {
        agg.tainted_scenarios = 1;
    } else {
        agg.strict_scenarios = 1;
    }

    for li in 0..cfg.layouts_per_scenario {
        let layouts: Vec<Layout> = history
            .programs
            .iter()
            .map(|_| {
                if li == 0 && index % 3 == 0 {
                    Layout::canonical()
                } else {
                    Layout::random(&mut rng_layout, true)
                }
            })
            .collect();
        crate::watch::scenario(index, &history, &layouts);
        let prep = match prepare(&history, &layouts) {
            Ok(p) => p,
            Err((pi, outcome, text)) => {
                agg.rejected += 1;
                if std::env::var("VERIF_DEBUG").is_ok() {
                    eprintln!("REJECTED scenario {} prog {}: {}\n{}", index, pi, outcome.short(), text.replace('\r', "<CR>\n"));
                }
                if let crate::runner::Outcome::Panic { .. } = outcome {
                    // parser panicked: an internal failure, but not of an *accepted* program
                    *agg.foreign.entry("parser_panic".into()).or_insert(0) += 1;
                }
                if agg.samples.len() < 2 {
                    agg.samples.push(json!({"rejected_program": pi, "outcome": outcome.short(), "text": text}));
                }
                continue;
            }
        };
        // ---- fault-free run, strict oracle ----
        let base = run_case(&prep, &history, &[], true, true);
        account(&mut agg, cfg, &history, &layouts, &[], &base, index, tainted);
        if base.rejected_by_linter {
            if std::env::var("VERIF_DEBUG").is_ok() {
                eprintln!("LINT-REJECTED scenario {}: {:?}\n{}", index, base.stats.last().map(|s| s.outcome.clone()), prep.emitted.last().unwrap().text.replace('\r', "<CR>\n"));
            }
            agg.rejected += 1;
            continue;
        }
        if index % 50 == 0 && li == 0 && agg.samples.len() < 3 {
            agg.samples.push(json!({
                "scenario_index": index,
                "profile": format!("{:?}", profile),
                "program": prep.emitted[0].text,
                "stdin": String::from_utf8_lossy(&history.programs[0].stdin),
                "fault_free_outcome": base.stats.first().map(|s| s.outcome.clone()),
                "fault_sites": base.sites.len(),
                "triggers": trig.iter().collect::<Vec<_>>(),
            }));
        }
        // a violation in the fault-free run: do not pile fault runs on top
        if !own(&base.found, cfg.id).is_empty() {
            continue;
        }
        // ---- determinism audit: 1 in 64 scenarios is re-run on a fresh thread ----
        if index % 64 == 0 && li == 0 {
            let d0: Vec<u64> = base.stats.iter().map(|s| s.digest).collect();
            let h2 = history.clone();
            let l2 = layouts.clone();
            let d1 = std::thread::Builder::new()
                .stack_size(64 << 20)
                .spawn(move || {
                    let prep = prepare(&h2, &l2).ok()?;
                    let r = run_case(&prep, &h2, &[], false, false);
                    Some(r.stats.iter().map(|s| s.digest).collect::<Vec<u64>>())
                })
                .unwrap()
                .join()
                .unwrap_or(None);
            agg.determinism_rechecks += 1;
            if d1.as_ref() != Some(&d0) {
                agg.determinism_failures
                    .push(format!("scenario {}: {:?} vs {:?}", index, d0, d1));
            }
        }
        // ---- single-fault placements ----
        let mut sites: Vec<(usize, Site)> = base
            .sites
            .iter()
            .filter(|(_, s)| s.occ <= 3 && s.ordinal <= 2)
            .cloned()
            .collect();
        sites.dedup();
        let mut candidates: Vec<(usize, Fault)> = vec![];
        for (pi, s) in &sites {
            for k in fault_kinds_for(s.class, s.seam) {
                candidates.push((
                    *pi,
                    Fault {
                        addr: FaultAddr::Stmt {
                            stmt: s.stmt,
                            occ: s.occ,
                            ordinal: s.ordinal,
                        },
                        class: s.class,
                        seam: s.seam,
                        kind: k,
                    },
                ));
            }
        }
        let total_candidates = candidates.len();
        // sample without replacement when there are too many
        let mut chosen: Vec<(usize, Fault)> = vec![];
        if candidates.len() <= cfg.max_single_faults {
            chosen = candidates.clone();
        } else {
            let mut pool = candidates.clone();
            for _ in 0..cfg.max_single_faults {
                let i = rng_fault.below(pool.len());
                chosen.push(pool.swap_remove(i));
            }
        }
        for (pi, f) in &chosen {
            let plan = vec![PlanItem {
                prog: *pi,
                fault: FaultSer::from_fault(f),
            }];
            let r = run_case(&prep, &history, &plan, false, true);
            let fired_any = r.stats.iter().any(|s| !s.fired.is_empty());
            if fired_any {
                agg.tuples.insert(tuple_key(&history, f, &r.stats));
            }
            account(&mut agg, cfg, &history, &layouts, &plan, &r, index, tainted);
        }
        // ---- disk quota: the file system accepts only so many bytes in a run ----
        let file_bytes: u64 = base
            .sites
            .iter()
            .filter(|(_, s)| s.class == OpClass::Write && s.seam == SeamKind::File)
            .count() as u64;
        if file_bytes > 0 {
            for _ in 0..(if cfg.tier == "thorough" { 4 } else { 1 }) {
                let pi = base
                    .sites
                    .iter()
                    .find(|(_, s)| s.class == OpClass::Write && s.seam == SeamKind::File)
                    .map(|(p, _)| *p)
                    .unwrap_or(0);
                let q = rng_fault.below(40) as u32;
                let plan = vec![PlanItem {
                    prog: pi,
                    fault: FaultSer {
                        stmt: None,
                        occ: 0,
                        ordinal: 0,
                        class: "write".into(),
                        seam: "file".into(),
                        kind: "quota".into(),
                        arg: q,
                        permanent: false,
                    },
                }];
                let r = run_case(&prep, &history, &plan, false, true);
                account(&mut agg, cfg, &history, &layouts, &plan, &r, index, tainted);
            }
        }
        // ---- crash points: the process is killed at an arbitrary instruction; the store
        // survives as it is, the remaining programs of the history run over it ----
        for _ in 0..cfg.kill_plans {
            let pi = rng_fault.below(history.programs.len());
            let total = base.stats.get(pi).map(|s| s.instr).unwrap_or(0);
            if total < 3 {
                continue;
            }
            let io = &base.stats[pi].io_instr;
            let at = if !io.is_empty() && rng_fault.chance(2, 3) {
                // right after (or a few instructions after) a file operation
                io[rng_fault.below(io.len())] + 1 + rng_fault.below(3) as u64
            } else {
                1 + rng_fault.below(total as usize - 1) as u64
            };
            let mut plan = vec![PlanItem {
                prog: pi,
                fault: FaultSer {
                    stmt: None,
                    occ: 0,
                    ordinal: 0,
                    class: "process".into(),
                    seam: "process".into(),
                    kind: "kill".into(),
                    arg: at as u32,
                    permanent: false,
                },
            }];
            if !candidates.is_empty() && rng_fault.chance(1, 3) {
                let (fpi, f) = candidates[rng_fault.below(candidates.len())];
                plan.push(PlanItem {
                    prog: fpi,
                    fault: FaultSer::from_fault(&f),
                });
            }
            let r = run_case(&prep, &history, &plan, false, true);
            account(&mut agg, cfg, &history, &layouts, &plan, &r, index, tainted);
        }
        // ---- a device that fails for good: from its n-th operation on, every write to the
        // screen / the printer / the files (or every read of the console) fails ----
        for _ in 0..cfg.permanent_plans {
            let mut kinds: Vec<(usize, OpClass, SeamKind)> = base
                .sites
                .iter()
                .filter(|(_, s)| matches!(s.class, OpClass::Write | OpClass::Read))
                .map(|(p, s)| (*p, s.class, s.seam))
                .collect();
            kinds.sort();
            kinds.dedup();
            if kinds.is_empty() {
                break;
            }
            let (pi, class, seam) = *rng_fault.pick(&kinds);
            let count = base
                .sites
                .iter()
                .filter(|(p, s)| *p == pi && s.class == class && s.seam == seam)
                .count();
            let nth = rng_fault.below(count.clamp(1, 10)) as u32;
            let kind = if class == OpClass::Write {
                FaultKind::Error(*rng_fault.pick(&[
                    IoKind::StorageFull,
                    IoKind::BrokenPipe,
                    IoKind::Other,
                ]))
            } else {
                FaultKind::Error(IoKind::Other)
            };
            let f = Fault {
                addr: FaultAddr::From { nth },
                class,
                seam,
                kind,
            };
            let plan = vec![PlanItem {
                prog: pi,
                fault: FaultSer::from_fault(&f),
            }];
            let r = run_case(&prep, &history, &plan, false, true);
            if r.stats.iter().any(|s| !s.fired.is_empty()) {
                *agg.fired.entry("device_failed_for_good".to_string()).or_insert(0) += 1;
            }
            account(&mut agg, cfg, &history, &layouts, &plan, &r, index, tainted);
        }
        // ---- multi-fault plans (incl. transient faults on consecutive occurrences) ----
        if !candidates.is_empty() {
            for _ in 0..cfg.multi_fault_plans {
                let n = 2 + rng_fault.below(2);
                let mut plan = vec![];
                let write_sites: Vec<&(usize, Fault)> = candidates
                    .iter()
                    .filter(|(_, f)| f.class == OpClass::Write && matches!(f.kind, FaultKind::ShortWrite(_)))
                    .collect();
                if !write_sites.is_empty() && rng_fault.chance(1, 4) {
                    // the device takes a part of a write and refuses the rest: a short write,
                    // then a hard error on the very next write of the same statement execution
                    let (pi, f) = **rng_fault.pick(&write_sites);
                    if let FaultAddr::Stmt { stmt, occ, ordinal } = f.addr {
                        plan.push(PlanItem {
                            prog: pi,
                            fault: FaultSer::from_fault(&f),
                        });
                        let mut g = f;
                        g.addr = FaultAddr::Stmt {
                            stmt,
                            occ,
                            ordinal: ordinal + 1,
                        };
                        g.kind = FaultKind::Error(*rng_fault.pick(&[
                            IoKind::StorageFull,
                            IoKind::BrokenPipe,
                            IoKind::Other,
                        ]));
                        plan.push(PlanItem {
                            prog: pi,
                            fault: FaultSer::from_fault(&g),
                        });
                    }
                } else if rng_fault.chance(1, 3) {
                    // transient: the same site fails on consecutive executions
                    let (pi, f) = candidates[rng_fault.below(candidates.len())];
                    if let FaultAddr::Stmt { stmt, occ, ordinal } = f.addr {
                        for k in 0..n as u32 {
                            let mut g = f;
                            g.addr = FaultAddr::Stmt {
                                stmt,
                                occ: occ + k,
                                ordinal,
                            };
                            plan.push(PlanItem {
                                prog: pi,
                                fault: FaultSer::from_fault(&g),
                            });
                        }
                    }
                } else {
                    for _ in 0..n {
                        let (pi, f) = candidates[rng_fault.below(candidates.len())];
                        plan.push(PlanItem {
                            prog: pi,
                            fault: FaultSer::from_fault(&f),
                        });
                    }
                }
                let r = run_case(&prep, &history, &plan, false, true);
                account(&mut agg, cfg, &history, &layouts, &plan, &r, index, tainted);
            }
        }
        let _ = total_candidates;
    }
    JobOut { index, agg }
}

pub fn fxhash(s: &str) -> u64 {
    let mut h = crate::prng::Fnv::default();
    h.str(s);
    h.0
}

#[allow(clippy::too_many_arguments)]
fn account(
    agg: &mut Agg,
    cfg: &CheckCfg,
    history: &History,
    layouts: &[Layout],
    plan: &[PlanItem],
    r: &CaseRun,
    index: usize,
    tainted: bool,
) {
    agg.runs += 1;
    let mut nontrivial = false;
    let mut h = crate::prng::Fnv::default();
    for s in &r.stats {
        agg.instr += s.instr;
        agg.io_calls += s.io_calls;
        agg.errors_dispatched += s.errors_dispatched;
        h.u64(s.digest);
        if !s.fired.is_empty() || s.errors_dispatched > 0 {
            nontrivial = true;
        }
        for (c, sk, k) in &s.fired {
            *agg.fired.entry(k.name().to_string()).or_insert(0) += 1;
            *agg
                .fired_by_seam
                .entry(format!("{}:{}", seam_name(*sk), class_name(*c)))
                .or_insert(0) += 1;
        }
        if s.killed {
            nontrivial = true;
            *agg.fired.entry("kill".to_string()).or_insert(0) += 1;
            *agg.fired_by_seam.entry("process:kill".to_string()).or_insert(0) += 1;
            if s.writes_after_kill {
                *agg.fired.entry("kill_discarded_later_writes".to_string()).or_insert(0) += 1;
            }
        }
        if let Some(w) = s.stopped_early.as_ref().filter(|w| w.as_str() != crate::model::KILLED) {
            *agg.stopped_early.entry(w.clone()).or_insert(0) += 1;
        }
    }
    agg.digests.insert(h.0);
    if nontrivial {
        agg.nontrivial.insert(h.0);
    }
    for m in &r.model {
        agg.model_statements += m.statements;
        for (k, v) in &m.probes {
            *agg.probes.entry(k.to_string()).or_insert(0) += v;
        }
    }
    agg.monitor_visits += r.monitor.statement_visits;
    agg.monitor_revisits += r.monitor.revisits_checked;
    agg.monitor_calls += r.monitor.calls_checked;
    agg.monitor_halts += r.monitor.halt_checked as u64;
    agg.labels += r.monitor.labels as u64;
    agg.branches += r.monitor.branches as u64;
    for f in &r.found {
        if f.property == cfg.id {
            if agg.own_violations.len() < 4 {
                agg.own_violations.push((
                    index,
                    f.clone(),
                    Case {
                        history: history.clone(),
                        layouts: layouts.to_vec(),
                        plan: plan.to_vec(),
                    },
                    tainted,
                ));
            }
        } else {
            *agg.foreign.entry(f.property.to_string()).or_insert(0) += 1;
        }
    }
}

fn merge(a: &mut Agg, b: Agg) {
    a.scenarios += b.scenarios;
    a.rejected += b.rejected;
    a.runs += b.runs;
    a.nontrivial.extend(b.nontrivial);
    a.digests.extend(b.digests);
    a.tuples.extend(b.tuples);
    a.instr += b.instr;
    a.io_calls += b.io_calls;
    for (k, v) in b.fired {
        *a.fired.entry(k).or_insert(0) += v;
    }
    for (k, v) in b.fired_by_seam {
        *a.fired_by_seam.entry(k).or_insert(0) += v;
    }
    for (k, v) in b.probes {
        *a.probes.entry(k).or_insert(0) += v;
    }
    a.errors_dispatched += b.errors_dispatched;
    a.model_statements += b.model_statements;
    for (k, v) in b.stopped_early {
        *a.stopped_early.entry(k).or_insert(0) += v;
    }
    for (k, v) in b.foreign {
        *a.foreign.entry(k).or_insert(0) += v;
    }
    a.strict_scenarios += b.strict_scenarios;
    a.tainted_scenarios += b.tainted_scenarios;
    a.own_violations.extend(b.own_violations);
    a.monitor_visits += b.monitor_visits;
    a.monitor_revisits += b.monitor_revisits;
    a.monitor_calls += b.monitor_calls;
    a.monitor_halts += b.monitor_halts;
    a.labels += b.labels;
    a.branches += b.branches;
    if a.samples.len() < 4 {
        a.samples.extend(b.samples);
        a.samples.truncate(4);
    }
    a.determinism_rechecks += b.determinism_rechecks;
    a.determinism_failures.extend(b.determinism_failures);
}

/// Does known finding `k` explain violation `f` found in (minimised) history `h`?
pub fn explains(k: &KnownFinding, f: &Found, h: &History) -> bool {
    if k.property != f.property {
        return false;
    }
    if !k.class.is_empty() && format!("{:?}", f.class) != k.class {
        return false;
    }
    if !k.key.is_empty() && !f.key.contains(&k.key) {
        return false;
    }
    if !k.trigger.is_empty() && !triggers(h).contains(k.trigger.as_str()) {
        return false;
    }
    true
}

pub struct CheckResult {
    pub exit: i32,
}

pub fn run_check(cfg: &CheckCfg) -> CheckResult {
    let t0 = Instant::now();
    let known = load_known(&format!("{}/known_findings.json", cfg.verif_dir));
    println!(
        "check {} tier={} VERIF_SEED={} scenarios={} threads={}",
        cfg.id, cfg.tier, cfg.seed, cfg.scenarios, cfg.threads
    );
    let next = Arc::new(AtomicUsize::new(0));
    let results: Arc<Mutex<Vec<JobOut>>> = Arc::new(Mutex::new(vec![]));
    let mut handles = vec![];
    let cfg_arc = Arc::new(cfg.clone());
    let known_arc = Arc::new(known.clone());
    for _ in 0..cfg.threads {
        let next = next.clone();
        let results = results.clone();
        let cfg = cfg_arc.clone();
        let known = known_arc.clone();
        let t0 = t0;
        handles.push(
            std::thread::Builder::new()
                .stack_size(256 << 20)
                .spawn(move || {
                    loop {
                        let i = next.fetch_add(1, Ordering::SeqCst);
                        if i >= cfg.scenarios {
                            break;
                        }
                        if t0.elapsed().as_secs() > cfg.wall_limit_s {
                            break;
                        }
                        let o = one_scenario(&cfg, i, &known);
                        results.lock().unwrap().push(o);
                    }
                })
                .unwrap(),
        );
    }
    if !crate::watch::join_all(handles) {
        eprintln!("harness error: worker thread died");
        return CheckResult { exit: 2 };
    }
    let mut outs = std::mem::take(&mut *results.lock().unwrap());
    outs.sort_by_key(|o| o.index);
    let completed = outs.len();
    let mut agg = Agg::default();
    for o in outs {
        merge(&mut agg, o.agg);
    }

    // ---- raw-program workloads: repository corpus and W-IO (no model) ----
    let mut raw_violations: Vec<(Found, crate::raw::RawCase)> = vec![];
    if cfg.id == "C08" || cfg.id == "C15" {
        raw_part(cfg, &mut agg, &mut raw_violations, t0);
    }

    // ---- SimFs fidelity against the real file system (C18) ----
    if cfg.id == "C18" {
        let n = if cfg.tier == "thorough" { 3000 } else { 300 };
        let n = (n as f64 * scale_env()) as usize;
        let (compared, mismatches) = fidelity(cfg, n);
        agg.probes
            .insert("simfs_vs_real_fs_histories_compared".into(), compared as u64);
        agg.probes
            .insert("simfs_vs_real_fs_mismatches".into(), mismatches.len() as u64);
        if !mismatches.is_empty() {
            eprintln!(
                "harness error: the simulated file system disagrees with the real one:\n{}",
                mismatches.join("\n")
            );
            return CheckResult { exit: 2 };
        }
    }

    // ---- witnesses of known findings ----
    let mut known_lines: Vec<String> = vec![];
    let mut violations_out: Vec<String> = vec![];
    let mut n_violations = 0;
    let mut witnesses_replayed: Vec<String> = vec![];
    for k in known.findings.iter().filter(|k| k.property == cfg.id) {
        if k.witness.is_empty() {
            continue;
        }
        let path = format!("{}/{}", cfg.verif_dir, k.witness);
        let rep = match load_replay(&path) {
            Some(r) => r,
            None => {
                eprintln!("harness error: witness {} unreadable", path);
                return CheckResult { exit: 2 };
            }
        };
        let found = replay_found(&rep);
        let still = found.iter().any(|f| explains(k, f, &rep.case.history));
        witnesses_replayed.push(format!(
            "{} ({}): {}",
            k.id,
            k.status,
            if still { "fails" } else { "passes" }
        ));
        if k.status == "open" {
            if still {
                known_lines.push(format!(
                    "KNOWN-FINDING: property={} {} [{}] witness={}",
                    cfg.id, k.what, k.id, k.witness
                ));
            } else {
                println!(
                    "note: witness of open finding {} no longer fails (finding {} may be resolved)",
                    k.witness, k.id
                );
            }
        } else if still {
            // a fixed defect is back
            n_violations += 1;
            violations_out.push(format!("VIOLATION property={} replay={}", cfg.id, path));
            println!("fixed finding {} fails again: {}", k.id, k.what);
        }
    }

    // ---- own violations: minimise, attribute, write replays ----
    agg.own_violations.sort_by_key(|v| v.0);
    let mut reported_keys: BTreeSet<String> = BTreeSet::new();
    let mut budget_min = 12; // minimise at most this many
    for (index, f, case, _tainted) in agg.own_violations.iter() {
        let dedup = format!("{}|{}", f.property, f.key);
        if reported_keys.contains(&dedup) {
            continue;
        }
        if budget_min == 0 {
            break;
        }
        budget_min -= 1;
        let (min_case, min_found) = shrink::minimise(case, f);
        let explained = known
            .findings
            .iter()
            .filter(|k| k.status == "open")
            .find(|k| explains(k, &min_found, &min_case.history));
        reported_keys.insert(dedup);
        match explained {
            Some(k) => {
                let line = format!(
                    "KNOWN-FINDING: property={} {} [{}] (seen again: scenario {})",
                    cfg.id, k.what, k.id, index
                );
                if !known_lines.iter().any(|l| l.contains(&format!("[{}]", k.id))) {
                    known_lines.push(line);
                }
            }
            None => {
                n_violations += 1;
                let rep = make_replay(cfg, *index, &min_case, &min_found);
                let dir = format!("{}/replays", cfg.verif_dir);
                let _ = std::fs::create_dir_all(&dir);
                // (one scenario can yield findings with different keys: one file each)
                let mut path = format!("{}/{}-{}-{}.json", dir, cfg.id, cfg.seed, index);
                if violations_out.iter().any(|l| l.ends_with(&path)) {
                    path = format!(
                        "{}/{}-{}-{}-{:04x}.json",
                        dir,
                        cfg.id,
                        cfg.seed,
                        index,
                        crate::raw::digest_text(&min_found.key) as u16
                    );
                }
                std::fs::write(&path, serde_json::to_string_pretty(&rep).unwrap()).unwrap();
                // the replay must reproduce in a fresh evaluation
                let again = replay_found(&rep);
                let reproduced = again
                    .iter()
                    .any(|g| g.property == min_found.property && g.class == min_found.class);
                println!(
                    "violation: {} [{:?}] {}\n  minimised program:\n{}",
                    min_found.property,
                    min_found.class,
                    min_found.detail,
                    indent(&rep.texts.join("\n--- next program ---\n"))
                );
                if !rep.case.plan.is_empty() {
                    println!("  fault plan: {}", serde_json::to_string(&rep.case.plan).unwrap());
                }
                if !reproduced {
                    eprintln!("harness error: replay {} does not reproduce", path);
                    return CheckResult { exit: 2 };
                }
                violations_out.push(format!("VIOLATION property={} replay={}", cfg.id, path));
            }
        }
    }

    // ---- violations of the raw workloads ----
    for (f, case) in raw_violations.iter() {
        let dedup = format!("{}|{}", f.property, f.key);
        if reported_keys.contains(&dedup) {
            continue;
        }
        reported_keys.insert(dedup);
        let min = crate::raw::minimise_raw(case, f);
        let explained = known
            .findings
            .iter()
            .filter(|k| k.status == "open")
            .find(|k| explains(k, f, &History::default()));
        match explained {
            Some(k) => {
                if !known_lines.iter().any(|l| l.contains(&format!("[{}]", k.id))) {
                    known_lines.push(format!(
                        "KNOWN-FINDING: property={} {} [{}]",
                        cfg.id, k.what, k.id
                    ));
                }
            }
            None => {
                n_violations += 1;
                let rep = Replay {
                    property: f.property.to_string(),
                    class: format!("{:?}", f.class),
                    key: f.key.clone(),
                    detail: f.detail.clone(),
                    seed: cfg.seed,
                    scenario_index: 0,
                    case: Case {
                        history: History::default(),
                        layouts: vec![Layout::canonical()],
                        plan: vec![],
                    },
                    texts: vec![min.text.clone()],
                    raw: Some(min.clone()),
                };
                let dir = format!("{}/replays", cfg.verif_dir);
                let _ = std::fs::create_dir_all(&dir);
                let path = format!(
                    "{}/{}-{}-raw-{:08x}.json",
                    dir,
                    cfg.id,
                    cfg.seed,
                    crate::raw::digest_text(&f.key) as u32
                );
                std::fs::write(&path, serde_json::to_string_pretty(&rep).unwrap()).unwrap();
                println!(
                    "violation: {} [{:?}] {} ({})\n  minimised program:\n{}\n  stdin: {:?}\n  fault plan: {}",
                    f.property,
                    f.class,
                    f.detail,
                    min.origin,
                    indent(&min.text.replace('\r', "")),
                    String::from_utf8_lossy(&min.stdin),
                    serde_json::to_string(&min.plan).unwrap()
                );
                let again = replay_found(&rep);
                if !again.iter().any(|g| g.property == f.property && g.key == f.key) {
                    eprintln!("harness error: replay {} does not reproduce", path);
                    return CheckResult { exit: 2 };
                }
                violations_out.push(format!("VIOLATION property={} replay={}", cfg.id, path));
            }
        }
    }

    // ---- runs that never came back (watchdog) ----
    for r in crate::watch::take_hung() {
        let (index, case, raw) = crate::watch::case_of(&r);
        let (property, class) = match cfg.id {
            "C05" => ("C05", "Liveness"),
            "C08" => ("C08", "Internal"),
            _ => {
                println!(
                    "note: a run of scenario {} never came back (no instruction ended within {} s); that is C05's and C08's finding, this check could not judge the scenario",
                    index,
                    crate::watch::limit().as_secs()
                );
                continue;
            }
        };
        n_violations += 1;
        let texts: Vec<String> = match &raw {
            Some(c) => vec![c.text.clone()],
            None => case
                .history
                .programs
                .iter()
                .enumerate()
                .map(|(i, sc)| crate::emit::emit(sc, &case.layouts[i.min(case.layouts.len() - 1)]).text)
                .collect(),
        };
        let detail = format!(
            "the run never came back: one VM instruction did not end within {} s (the program neither terminates nor ends in a BASIC error)",
            crate::watch::limit().as_secs()
        );
        let rep = Replay {
            property: property.to_string(),
            class: class.to_string(),
            key: "hang".into(),
            detail: detail.clone(),
            seed: cfg.seed,
            scenario_index: index,
            case,
            texts: texts.clone(),
            raw,
        };
        let dir = format!("{}/replays", cfg.verif_dir);
        let _ = std::fs::create_dir_all(&dir);
        let path = format!("{}/{}-{}-hang-{}.json", dir, cfg.id, cfg.seed, index);
        std::fs::write(&path, serde_json::to_string_pretty(&rep).unwrap()).unwrap();
        println!(
            "violation: {} [{}] {}\n  program:\n{}\n  fault plan: {}",
            property,
            class,
            detail,
            indent(&texts.join("\n--- next program ---\n").replace("\r\n", "\n").replace('\r', "\n")),
            serde_json::to_string(&rep.case.plan).unwrap()
        );
        violations_out.push(format!("VIOLATION property={} replay={}", cfg.id, path));
    }

    if !agg.determinism_failures.is_empty() {
        if n_violations == 0 {
            eprintln!(
                "harness error: outcome depends on something outside the seed (hash order?): {:?}",
                agg.determinism_failures
            );
            return CheckResult { exit: 2 };
        }
        // every violation reported below was reproduced from its replay file in a fresh
        // evaluation; the audit's failure is reported next to them
        println!(
            "note: {} audited runs depended on something outside the seed: {:?}",
            agg.determinism_failures.len(),
            agg.determinism_failures.iter().take(3).collect::<Vec<_>>()
        );
    }
    if agg.scenarios > 20 && agg.rejected * 2 > agg.scenarios * cfg.layouts_per_scenario {
        eprintln!(
            "harness error: {} of {} generated programs were rejected by the parser / checker",
            agg.rejected,
            agg.scenarios * cfg.layouts_per_scenario
        );
        return CheckResult { exit: 2 };
    }

    let wall = t0.elapsed().as_secs_f64();
    write_evidence(cfg, &agg, wall, n_violations, &known_lines, completed, &witnesses_replayed);
    for l in &known_lines {
        println!("{}", l);
    }
    for l in &violations_out {
        println!("{}", l);
    }
    println!(
        "{}: scenarios={} runs={} ({:.0} runs/s) fired={} nontrivial={} violations={} wall={:.1}s",
        cfg.id,
        agg.scenarios,
        agg.runs,
        agg.runs as f64 / wall.max(0.001),
        agg.fired.values().sum::<u64>(),
        agg.nontrivial.len(),
        n_violations,
        wall
    );
    CheckResult {
        exit: if n_violations > 0 { 1 } else { 0 },
    }
}

/// SimFs fidelity: the same fault-free file histories are run once over the simulated file
/// system and once over the real one (std::fs in a scratch directory, hook seam empty);
/// outcome, screen bytes and the final store must agree. Runs single-threaded because the
/// real run needs the process's current directory. Returns (histories compared, mismatches).
pub fn fidelity(cfg: &CheckCfg, n: usize) -> (usize, Vec<String>) {
    use crate::world::World;
    let base = format!("{}/sim/target/scratch/fid-{}", cfg.verif_dir, std::process::id());
    let old_cwd = std::env::current_dir().ok();
    let mut compared = 0;
    let mut mismatches = vec![];
    for i in 0..n {
        let mut rng = Rng::new(mix(&[cfg.seed, fxhash("fidelity"), i as u64]));
        let history = gen_history(Profile::Files, &mut rng, &Avoid::default());
        // names that cannot be created depend on the host (NODIR/...): fine, both sides lack NODIR
        let layouts: Vec<Layout> = history.programs.iter().map(|_| Layout::canonical()).collect();
        let prep = match prepare(&history, &layouts) {
            Ok(p) => p,
            Err((pi, o, t)) => {
                if mismatches.len() < 5 {
                    mismatches.push(format!("history {} program {} rejected: {}\n{}", i, pi, o.short(), t));
                }
                continue;
            }
        };
        // --- simulated ---
        let sim = run_case(&prep, &history, &[], false, false);
        let mut fs = initial_store(&history);
        let mut sim_screens = vec![];
        let mut sim_outcomes = vec![];
        for (pi, sc) in history.programs.iter().enumerate() {
            let w = World::new(vec![], sc.stdin.clone(), fs.clone(), vec![]).shared();
            let r = crate::runner::run_program(&prep.programs[pi], &w, BUDGET);
            let wb = w.borrow();
            sim_screens.push(wb.screen.bytes.clone());
            sim_outcomes.push(r.outcome.short());
            fs = wb.fs.clone();
        }
        let sim_store = fs.snapshot();
        let _ = sim;
        // --- real ---
        let dir = format!("{}/h{}", base, i);
        let _ = std::fs::remove_dir_all(&dir);
        if std::fs::create_dir_all(format!("{}/DIRX", dir)).is_err() {
            continue;
        }
        for (n, c) in &history.files {
            let _ = std::fs::write(format!("{}/{}", dir, n), c);
        }
        if std::env::set_current_dir(&dir).is_err() {
            continue;
        }
        let mut real_screens = vec![];
        let mut real_outcomes = vec![];
        for (pi, sc) in history.programs.iter().enumerate() {
            let mut world = World::new(vec![], sc.stdin.clone(), Default::default(), vec![]);
            world.real_fs = true;
            let w = world.shared();
            let r = crate::runner::run_program(&prep.programs[pi], &w, BUDGET);
            real_screens.push(w.borrow().screen.bytes.clone());
            real_outcomes.push(r.outcome.short());
        }
        let mut real_store: BTreeMap<String, Vec<u8>> = BTreeMap::new();
        if let Ok(rd) = std::fs::read_dir(&dir) {
            for e in rd.flatten() {
                if e.path().is_file() {
                    if let Ok(c) = std::fs::read(e.path()) {
                        real_store.insert(e.file_name().to_string_lossy().to_string(), c);
                    }
                }
            }
        }
        if let Some(c) = &old_cwd {
            let _ = std::env::set_current_dir(c);
        }
        let _ = std::fs::remove_dir_all(&dir);
        compared += 1;
        if sim_outcomes != real_outcomes || sim_screens != real_screens || sim_store != real_store {
            if mismatches.len() < 5 {
                mismatches.push(format!(
                    "history {}: outcomes sim {:?} real {:?}; screens equal: {}; stores equal: {}\n{}",
                    i,
                    sim_outcomes,
                    real_outcomes,
                    sim_screens == real_screens,
                    sim_store == real_store,
                    prep.emitted.iter().map(|e| e.text.clone()).collect::<Vec<_>>().join("--- next program ---\n")
                ));
            }
        }
    }
    let _ = std::fs::remove_dir_all(&base);
    (compared, mismatches)
}

/// Corpus and W-IO workloads for C08 (no internal failure) and C15 (VM monitor).
fn raw_part(
    cfg: &CheckCfg,
    agg: &mut Agg,
    violations: &mut Vec<(Found, crate::raw::RawCase)>,
    t0: Instant,
) {
    use crate::raw::*;
    let quick = cfg.tier != "thorough";
    let corpus = harvest(&std::env::var("VERIF_REPO").unwrap_or_else(|_| "/repo".to_string()));
    let n_wio = if cfg.id == "C08" {
        ((if quick { 12_000 } else { 300_000 }) as f64 * scale_env()) as usize
    } else {
        ((if quick { 2_000 } else { 40_000 }) as f64 * scale_env()) as usize
    };
    let n_wrep = if cfg.id == "C08" {
        ((if quick { 6_000 } else { 200_000 }) as f64 * scale_env()) as usize
    } else {
        ((if quick { 1_500 } else { 30_000 }) as f64 * scale_env()) as usize
    };
    let n_corpus = corpus.programs.len();
    let total_jobs = n_corpus + n_wio + n_wrep;
    let next = Arc::new(AtomicUsize::new(0));
    let results: Arc<Mutex<Vec<(usize, RawAgg)>>> = Arc::new(Mutex::new(vec![]));
    let corpus = Arc::new(corpus);
    let mut handles = vec![];
    let id = cfg.id;
    let seed = cfg.seed;
    let wall_limit = cfg.wall_limit_s + 60;
    for _ in 0..cfg.threads {
        let next = next.clone();
        let results = results.clone();
        let corpus = corpus.clone();
        handles.push(
            std::thread::Builder::new()
                .stack_size(256 << 20)
                .spawn(move || {
                    loop {
                        let i = next.fetch_add(1, Ordering::SeqCst);
                        if i >= total_jobs || t0.elapsed().as_secs() > wall_limit {
                            break;
                        }
                        let mut rng = Rng::new(mix(&[seed, fxhash(id), 0x5241_57, i as u64]));
                        let mut a = RawAgg::default();
                        if i < n_corpus {
                            corpus_job(&corpus.programs[i], &mut rng, &mut a, quick);
                        } else if i < n_corpus + n_wio {
                            let case = gen_wio(&mut rng);
                            wio_job(case, &mut a);
                        } else {
                            let case = gen_wrep(&mut rng);
                            wio_job(case, &mut a);
                        }
                        results.lock().unwrap().push((i, a));
                    }
                })
                .unwrap(),
        );
    }
    let _ = crate::watch::join_all(handles);
    let mut outs = std::mem::take(&mut *results.lock().unwrap());
    outs.sort_by_key(|o| o.0);
    let mut accepted = 0usize;
    let mut rejected = 0usize;
    let mut seen_keys: BTreeSet<String> = BTreeSet::new();
    for (_, a) in outs {
        agg.runs += a.runs;
        agg.instr += a.instr;
        agg.io_calls += a.io_calls;
        agg.errors_dispatched += a.errors;
        agg.monitor_visits += a.monitor_visits;
        agg.monitor_revisits += a.monitor_revisits;
        agg.digests.extend(a.digests.iter());
        agg.nontrivial.extend(a.nontrivial.iter());
        for (k, v) in a.fired {
            *agg.fired.entry(k).or_insert(0) += v;
        }
        for (k, v) in a.fired_by_seam {
            *agg.fired_by_seam.entry(k).or_insert(0) += v;
        }
        for (k, v) in a.outcomes {
            *agg.probes.entry(format!("raw_outcome_{}", k)).or_insert(0) += v;
        }
        accepted += a.accepted;
        rejected += a.rejected;
        for (f, c) in a.found {
            if f.property == cfg.id {
                // one case per distinct finding: a finding that is seen thousands of
                // times (a known one, typically) must not crowd out the others
                if violations.len() < 256 && seen_keys.insert(f.key.clone()) {
                    violations.push((f, c));
                }
            } else {
                *agg.foreign.entry(f.property.to_string()).or_insert(0) += 1;
            }
        }
        if agg.samples.len() < 6 {
            if let Some(s) = a.sample {
                agg.samples.push(s);
            }
        }
    }
    agg.probes
        .insert("raw_corpus_candidates".into(), corpus.candidates as u64);
    agg.probes
        .insert("raw_corpus_programs".into(), n_corpus as u64);
    agg.probes
        .insert("raw_corpus_skipped_inkey".into(), corpus.skipped_inkey as u64);
    agg.probes.insert("raw_wio_programs".into(), n_wio as u64);
    agg.probes.insert("raw_wrep_programs".into(), n_wrep as u64);
    agg.probes
        .insert("raw_programs_accepted".into(), accepted as u64);
    agg.probes
        .insert("raw_programs_rejected_by_parser_or_checker".into(), rejected as u64);
}

fn scale_env() -> f64 {
    std::env::var("VERIF_SCALE")
        .ok()
        .and_then(|s| s.parse().ok())
        .unwrap_or(1.0)
}

#[derive(Default)]
struct RawAgg {
    runs: u64,
    instr: u64,
    io_calls: u64,
    errors: u64,
    monitor_visits: u64,
    monitor_revisits: u64,
    digests: BTreeSet<u64>,
    nontrivial: BTreeSet<u64>,
    fired: BTreeMap<String, u64>,
    fired_by_seam: BTreeMap<String, u64>,
    outcomes: BTreeMap<String, u64>,
    accepted: usize,
    rejected: usize,
    found: Vec<(Found, crate::raw::RawCase)>,
    sample: Option<serde_json::Value>,
}

fn raw_account(a: &mut RawAgg, case: &crate::raw::RawCase, r: crate::raw::RawRun) {
    a.runs += 1;
    a.instr += r.instr;
    a.io_calls += r.io_calls;
    a.errors += r.errors;
    a.monitor_visits += r.monitor_visits;
    a.monitor_revisits += r.monitor_revisits;
    a.digests.insert(r.digest);
    if !r.fired.is_empty() || r.errors > 0 {
        a.nontrivial.insert(r.digest);
    }
    for (c, sk, k) in &r.fired {
        *a.fired.entry(k.name().to_string()).or_insert(0) += 1;
        *a.fired_by_seam
            .entry(format!("{}:{}", seam_name(*sk), class_name(*c)))
            .or_insert(0) += 1;
    }
    let o = match &r.outcome {
        crate::runner::Outcome::Ok => "ok",
        crate::runner::Outcome::Error { .. } => "basic_error",
        crate::runner::Outcome::Budget => "budget",
        crate::runner::Outcome::Killed => "killed",
        crate::runner::Outcome::Panic { .. } => "internal_failure",
        crate::runner::Outcome::LintError(_) => "rejected_by_checker",
        crate::runner::Outcome::ParseError(_) => "rejected_by_parser",
    };
    *a.outcomes.entry(o.to_string()).or_insert(0) += 1;
    for f in r.found {
        if a.found.len() < 8 && !a.found.iter().any(|(g, _)| g.property == f.property && g.key == f.key) {
            a.found.push((f, case.clone()));
        }
    }
}

fn corpus_job(prog: &(String, String), rng: &mut Rng, a: &mut RawAgg, quick: bool) {
    use crate::raw::*;
    let parsed = match crate::runner::parse(&prog.0) {
        Ok(p) => p,
        Err(_) => {
            a.rejected += 1;
            return;
        }
    };
    let mut first = true;
    for stdin in stdin_variants(rng) {
        let case = RawCase {
            text: prog.0.clone(),
            stdin,
            files: vec![("A.TXT".into(), b"1,2\r\nabc\r\n".to_vec())],
            plan: vec![],
            origin: prog.1.clone(),
        };
        let r = run_raw(&case, Some(&parsed));
        if !r.accepted {
            a.rejected += 1;
            return;
        }
        if first {
            a.accepted += 1;
        }
        let ops = r.ops.clone();
        raw_account(a, &case, r);
        if first {
            first = false;
            // single faults at the first operations of every (class, seam) the program uses
            let depth = if quick { 2 } else { 6 };
            for ((class, seam), count) in ops {
                for nth in 0..count.min(depth) {
                    for kind in global_fault_kinds(class, seam) {
                        let mut c = case.clone();
                        c.plan = vec![global_fault(class, seam, nth, kind)];
                        let r = run_raw(&c, Some(&parsed));
                        raw_account(a, &c, r);
                    }
                }
            }
        }
    }
}

fn wio_job(case: crate::raw::RawCase, a: &mut RawAgg) {
    use crate::raw::*;
    let parsed = match crate::runner::parse(&case.text) {
        Ok(p) => p,
        Err(_) => {
            a.rejected += 1;
            return;
        }
    };
    let mut free = case.clone();
    free.plan.clear();
    let r = run_raw(&free, Some(&parsed));
    if !r.accepted {
        a.rejected += 1;
        return;
    }
    a.accepted += 1;
    if a.sample.is_none() {
        a.sample = Some(json!({"wio_program": case.text, "stdin": String::from_utf8_lossy(&case.stdin), "plan": case.plan, "fault_free_outcome": r.outcome.short()}));
    }
    raw_account(a, &free, r);
    if !case.plan.is_empty() {
        let r = run_raw(&case, Some(&parsed));
        raw_account(a, &case, r);
    }
}

fn indent(s: &str) -> String {
    s.lines()
        .map(|l| format!("    | {}", l))
        .collect::<Vec<_>>()
        .join("\n")
}

pub fn make_replay(cfg: &CheckCfg, index: usize, case: &Case, f: &Found) -> Replay {
    let texts = case
        .history
        .programs
        .iter()
        .enumerate()
        .map(|(i, sc)| crate::emit::emit(sc, &case.layouts[i.min(case.layouts.len() - 1)]).text)
        .collect();
    Replay {
        property: f.property.to_string(),
        class: format!("{:?}", f.class),
        key: f.key.clone(),
        detail: f.detail.clone(),
        seed: cfg.seed,
        scenario_index: index,
        case: case.clone(),
        texts,
        raw: None,
    }
}

pub fn load_replay(path: &str) -> Option<Replay> {
    let s = std::fs::read_to_string(path).ok()?;
    serde_json::from_str(&s).ok()
}

/// Re-runs a replay file's case and returns everything found.
pub fn replay_found(rep: &Replay) -> Vec<Found> {
    if let Some(raw) = &rep.raw {
        return crate::raw::run_raw(raw, None).found;
    }
    match prepare(&rep.case.history, &rep.case.layouts) {
        Ok(prep) => run_case(&prep, &rep.case.history, &rep.case.plan, false, true).found,
        Err(_) => vec![],
    }
}

fn write_evidence(
    cfg: &CheckCfg,
    agg: &Agg,
    wall: f64,
    n_violations: usize,
    known_lines: &[String],
    completed: usize,
    witnesses: &[String],
) {
    let level = match cfg.id {
        "C05" | "C16" | "C18" => "fault_enumeration",
        _ => "exploration",
    };
    // probes this check is expected to hit (DESIGN section 5); any that stayed at zero is
    // reported, so that a workload that stopped reaching a branch is noticed
    let expected: &[&str] = match cfg.id {
        "C05" | "C11" | "C15" => &[
            "resume_retry",
            "resume_next_after_last_statement_of_block",
            "error_in_subprogram_handled_in_main",
            "call_depth_2_or_more",
            "handler_re_armed_or_replaced",
            "on_error_goto_0",
            "on_error_goto_0_inside_handler",
            "on_error_in_subprogram",
            "on_error_resume_next_skip",
            "resume_label",
            "resume_label_out_of_subprogram",
            "return_without_gosub",
            "return_label",
            "resume_without_error",
            "gosub_nested",
            "goto_out_of_for",
            "goto_out_of_for_step",
            "goto_out_of_select",
            "error_with_operand_saved_on_stack",
            "print_abandoned_after_first_item",
            "print_failed_by_fault",
            "transparent_fault_absorbed",
            "assignment_overflow_after_call_returned",
        ],
        "C16" => &[
            "comma_at_column_13",
            "comma_at_zone_boundary",
            "comma_at_column_15",
            "print_trailing_separator",
            "string_with_embedded_cr_lf",
            "print_failed_by_fault",
            "column_known_after_failed_print",
            "print_on_desynced_device",
            "device_resynced_at_line_end",
            "transparent_fault_absorbed",
            "append_to_existing_file",
        ],
        "C18" => &[
            "open_on_handle_in_use",
            "open_missing_input_file",
            "open_name_that_cannot_be_created",
            "open_refused_by_fault",
            "append_to_existing_file",
            "input_past_end",
            "input_from_closed_handle",
            "input_from_handle_in_wrong_mode",
            "print_to_closed_handle",
            "print_to_handle_in_wrong_mode",
            "get_after_put_same_record",
            "put_with_other_records_present",
            "same_file_open_on_two_writing_handles",
            "stdin_eof_injected",
            "input_failed_by_fault",
            "simfs_vs_real_fs_histories_compared",
        ],
        _ => &[],
    };
    let zero_probes: Vec<String> = expected
        .iter()
        .filter(|p| agg.probes.get(**p).copied().unwrap_or(0) == 0)
        .map(|p| p.to_string())
        .collect();
    let ev = json!({
        "property_id": cfg.id,
        "tier": cfg.tier,
        "seed": cfg.seed,
        "level": level,
        "wall_s": wall,
        "violations": n_violations,
        "coverage": {
            "evaluations": agg.runs,
            "distinct_nontrivial": agg.nontrivial.len(),
            "rule": "one evaluation = one simulated execution of a generated history (real parser+linter+code generator+VM over simulated stdin/stdout/LPT1/file system/environment/screen) under one fault plan, checked online by the reference model and the VM monitor. Scenarios come from a seeded DSL generator (swarm feature mask per scenario); for each scenario the fault-free run is taken first, every I/O operation it performs inside a simple statement becomes a fault site, and site x fault kind placements are enumerated (sampled down to max_single_faults when more), plus a disk quota, crash points (the run killed at an arbitrary instruction, the store frozen as it is, the remaining programs of the history run over it), a device that fails for good from its n-th operation on, and seeded multi-fault / transient / short-write-then-error plans. A watchdog reports runs in which one VM instruction never ends. distinct = distinct digest of the full event log (every seam call with result, statement starts, error dispatches) + final device and store contents; non-trivial = at least one injected fault fired or at least one run-time error was dispatched in the run.",
            "samples": agg.samples,
            "scenarios": agg.scenarios,
            "scenarios_completed_before_wall_limit": completed,
            "strict_pool_scenarios": agg.strict_scenarios,
            "tainted_pool_scenarios": agg.tainted_scenarios,
            "programs_rejected_by_parser_or_checker": agg.rejected,
            "distinct_event_log_digests": agg.digests.len(),
            "distinct_statementkind_x_faultkind_x_seam_tuples_fired": agg.tuples.len(),
            "tuples": agg.tuples.iter().take(200).collect::<Vec<_>>(),
            "simulated_time": {
                "vm_instructions": agg.instr,
                "io_calls": agg.io_calls,
                "note": "the simulated world has no wall clock; logical time is VM instructions executed"
            },
            "runs_per_hour": (agg.runs as f64 / wall.max(0.001) * 3600.0) as u64,
            "faults_fired_by_kind": agg.fired,
            "faults_fired_by_seam_and_op": agg.fired_by_seam,
            "runtime_errors_dispatched": agg.errors_dispatched,
            "model_statements_executed": agg.model_statements,
            "rare_condition_probes": agg.probes,
            "probes_at_zero": zero_probes,
            "model_stopped_early_reasons": agg.stopped_early,
            "violations_of_other_properties_seen": agg.foreign,
            "vm_monitor": {
                "statement_boundary_visits": agg.monitor_visits,
                "revisits_compared": agg.monitor_revisits,
                "calls_checked": agg.monitor_calls,
                "final_halts_checked": agg.monitor_halts,
                "labels_checked": agg.labels,
                "branches_checked": agg.branches
            },
            "determinism_rechecks_on_fresh_thread": agg.determinism_rechecks,
            "known_findings_reported": known_lines,
            "witness_replays_of_fixed_or_open_findings": witnesses,
            "components": {
                "real": ["rusty_parser::parse_main_str", "rusty_linter::core::lint", "instruction_generator::generate_instructions", "Interpreter (VM)", "ReadInputSource", "WritePrinter", "PrintState", "FileManager/FileInfo", "all built-ins", "error mapping and stack-trace assembly"],
                "stub": ["stdin (SimRead)", "stdout and LPT1 (SimWrite)", "file system (SimFs behind hook H3)", "environment (SimEnv)", "screen (SimScreen)"]
            }
        },
        "assumptions": [
            "hooks H1-H3 (cargo feature verif) only add observation points and a file-system seam; with no VerifFs installed the seam forwards to std::fs",
            "statement attribution of seam calls uses the instruction positions reported through hook H2; a wrong position shows up as a divergence, not as a silent pass",
            "HashMap iteration order is not seeded; 1 in 64 scenarios is re-run on a fresh thread and must give the identical event-log digest",
            "a clean batch is evidence over the sampled scenario x fault space, not a proof"
        ]
    });
    let dir = format!("{}/evidence", cfg.verif_dir);
    let _ = std::fs::create_dir_all(&dir);
    let path = format!("{}/{}.json", dir, cfg.id);
    std::fs::write(&path, serde_json::to_string_pretty(&ev).unwrap()).unwrap();
}

pub fn class_from_str(s: &str) -> Option<Class> {
    Some(match s {
        "ControlFlow" => Class::ControlFlow,
        "ErrValue" => Class::ErrValue,
        "VarValue" => Class::VarValue,
        "Layout" => Class::Layout,
        "DeviceFault" => Class::DeviceFault,
        "FileData" => Class::FileData,
        "FileProtocol" => Class::FileProtocol,
        "InputParity" => Class::InputParity,
        "Position" => Class::Position,
        "Liveness" => Class::Liveness,
        "Internal" => Class::Internal,
        "Stack" => Class::Stack,
        _ => return None,
    })
}
