//! Scenario DSL: a small structured subset of BASIC whose semantics the
//! reference model (model.rs) knows by construction.

use serde::{Deserialize, Serialize};

pub type StmtId = u32;

#[derive(Clone, Copy, Debug, PartialEq, Eq, Hash, Serialize, Deserialize)]
pub enum Dev {
    Screen,
    Lpt1,
    File(i32),
}

#[derive(Clone, Copy, Debug, PartialEq, Eq, Serialize, Deserialize)]
pub enum CmpOp {
    Eq,
    Ne,
    Lt,
    Le,
    Gt,
    Ge,
}

impl CmpOp {
    pub fn text(&self) -> &'static str {
        match self {
            CmpOp::Eq => "=",
            CmpOp::Ne => "<>",
            CmpOp::Lt => "<",
            CmpOp::Le => "<=",
            CmpOp::Gt => ">",
            CmpOp::Ge => ">=",
        }
    }
    pub fn eval(&self, a: i64, b: i64) -> bool {
        match self {
            CmpOp::Eq => a == b,
            CmpOp::Ne => a != b,
            CmpOp::Lt => a < b,
            CmpOp::Le => a <= b,
            CmpOp::Gt => a > b,
            CmpOp::Ge => a >= b,
        }
    }
}

/// Numeric literal of a non-INTEGER type, used as a PRINT item.
#[derive(Clone, Debug, PartialEq, Serialize, Deserialize)]
pub struct NumLit {
    /// source text, e.g. "123456&", "-1.5", "2.25#"
    pub text: String,
    pub value: f64,
}

#[derive(Clone, Debug, PartialEq, Serialize, Deserialize)]
pub enum Expr {
    Int(i32),
    Num(NumLit),
    Str(String),
    /// integer variable, e.g. "G1%"
    Var(String),
    /// string variable, e.g. "S1$"
    SVar(String),
    Add(Box<Expr>, Box<Expr>),
    Sub(Box<Expr>, Box<Expr>),
    Mul(Box<Expr>, Box<Expr>),
    Cmp(CmpOp, Box<Expr>, Box<Expr>),
    /// user FUNCTION call (integer result)
    Call(String, Vec<Expr>),
    Err,
    Eof(i32),
    /// parenthesised
    Paren(Box<Expr>),
    /// LEN of a string literal (a built-in function call)
    LenOf(String),
    /// `(e / DZ%)`: fails with error 11 while the global DZ% is 0, has the value of `e`
    /// once a handler has set it to 1 (a failing block header that can be repaired)
    Quot(Box<Expr>),
}

#[derive(Clone, Debug, PartialEq, Serialize, Deserialize)]
pub enum PItem {
    E(Expr),
    Comma,
    Semi,
}

#[derive(Clone, Copy, Debug, PartialEq, Eq, Hash, Serialize, Deserialize)]
pub enum FailKind {
    /// Q% = 1 / ZZ%                     -> 11
    DivZero,
    /// Q% = AR%(50)                     -> 9
    Subscript,
    /// Q% = 40000 + ZZ%                 -> 6
    Overflow,
    /// Q$ = LEFT$("abc", ZZ% - 1)       -> 5
    IllegalCall,
    /// value computed, saved operand on the stack, then failure: Q% = 7 + (1 / ZZ%)  -> 11
    DivZeroMid,
    /// PRINT "x"; 1 / ZZ%   (a PRINT abandoned after its first item)  -> 11
    PrintThenDivZero,
    /// CLOSE 300                        -> 52
    BadHandle,
    /// error while two user-function argument lists are open: Q% = FI%((FI%((1 / ZZ%))))  -> 11
    DivZeroNestedArgs,
    /// error while two built-in argument lists are open: Q% = LEN(STR$(1 / ZZ%))  -> 11
    DivZeroBuiltInArgs,
    /// error in the argument of a SUB call statement: SI (1 / ZZ%)  -> 11
    DivZeroSubCallArg,
}

impl FailKind {
    pub fn code(&self) -> i32 {
        match self {
            FailKind::DivZero
            | FailKind::DivZeroMid
            | FailKind::PrintThenDivZero
            | FailKind::DivZeroNestedArgs
            | FailKind::DivZeroBuiltInArgs
            | FailKind::DivZeroSubCallArg => 11,
            FailKind::Subscript => 9,
            FailKind::Overflow => 6,
            FailKind::IllegalCall => 5,
            FailKind::BadHandle => 52,
        }
    }
    pub const ALL: [FailKind; 10] = [
        FailKind::DivZeroSubCallArg,
        FailKind::DivZeroNestedArgs,
        FailKind::DivZeroBuiltInArgs,
        FailKind::DivZero,
        FailKind::Subscript,
        FailKind::Overflow,
        FailKind::IllegalCall,
        FailKind::DivZeroMid,
        FailKind::PrintThenDivZero,
        FailKind::BadHandle,
    ];
}

#[derive(Clone, Copy, Debug, PartialEq, Eq, Serialize, Deserialize)]
pub enum Mode {
    Input,
    Output,
    Append,
    Random,
}

#[derive(Clone, Debug, PartialEq, Serialize, Deserialize)]
pub enum ResumeKind {
    Bare,
    Next,
    Label(String),
}

#[derive(Clone, Debug, PartialEq, Serialize, Deserialize)]
pub enum CaseSpec {
    Simple(Expr),
    Is(CmpOp, Expr),
    Range(Expr, Expr),
}

#[derive(Clone, Debug, PartialEq, Serialize, Deserialize)]
pub struct Stmt {
    pub id: StmtId,
    pub kind: StmtKind,
}

#[derive(Clone, Debug, PartialEq, Serialize, Deserialize)]
pub enum StmtKind {
    Print {
        dev: Dev,
        items: Vec<PItem>,
        using: Option<String>,
    },
    Assign {
        var: String,
        expr: Expr,
    },
    SAssign {
        var: String,
        expr: Expr,
    },
    If {
        cond: Expr,
        then_b: Vec<Stmt>,
        elseifs: Vec<(Expr, Vec<Stmt>)>,
        else_b: Option<Vec<Stmt>>,
    },
    IfLine {
        cond: Expr,
        then_s: Box<Stmt>,
        else_s: Option<Box<Stmt>>,
    },
    For {
        var: String,
        from: Expr,
        to: Expr,
        step: Option<Expr>,
        body: Vec<Stmt>,
    },
    While {
        cond: Expr,
        body: Vec<Stmt>,
    },
    Do {
        top: bool,
        until: bool,
        cond: Expr,
        body: Vec<Stmt>,
    },
    Select {
        expr: Expr,
        cases: Vec<(Vec<CaseSpec>, Vec<Stmt>)>,
        else_b: Option<Vec<Stmt>>,
    },
    Goto(String),
    Label(String),
    Gosub(String),
    Return(Option<String>),
    CallSub {
        name: String,
        args: Vec<Expr>,
    },
    ExitProc,
    OnErrorGoto(String),
    OnErrorGoto0,
    OnErrorResumeNext,
    Resume(ResumeKind),
    End,
    Fail(FailKind),
    Open {
        name: String,
        mode: Mode,
        handle: i32,
        len: Option<i32>,
    },
    /// empty = CLOSE (all)
    Close(Vec<i32>),
    InputFile {
        handle: i32,
        vars: Vec<String>,
    },
    LineInputFile {
        handle: i32,
        var: String,
    },
    InputCon {
        vars: Vec<String>,
    },
    LineInputCon {
        var: String,
    },
    Kill(String),
    NameAs(String, String),
    Field {
        handle: i32,
        fields: Vec<(i32, String)>,
    },
    Lset {
        var: String,
        expr: Expr,
    },
    Put {
        handle: i32,
        rec: i32,
    },
    Get {
        handle: i32,
        rec: i32,
    },
}

impl StmtKind {
    pub fn is_block(&self) -> bool {
        matches!(
            self,
            StmtKind::If { .. }
                | StmtKind::IfLine { .. }
                | StmtKind::For { .. }
                | StmtKind::While { .. }
                | StmtKind::Do { .. }
                | StmtKind::Select { .. }
        )
    }
    pub fn name(&self) -> &'static str {
        match self {
            StmtKind::Print { dev: Dev::Screen, .. } => "print",
            StmtKind::Print { dev: Dev::Lpt1, .. } => "lprint",
            StmtKind::Print { dev: Dev::File(_), .. } => "print#",
            StmtKind::Assign { .. } => "assign",
            StmtKind::SAssign { .. } => "sassign",
            StmtKind::If { .. } => "if",
            StmtKind::IfLine { .. } => "ifline",
            StmtKind::For { .. } => "for",
            StmtKind::While { .. } => "while",
            StmtKind::Do { .. } => "do",
            StmtKind::Select { .. } => "select",
            StmtKind::Goto(_) => "goto",
            StmtKind::Label(_) => "label",
            StmtKind::Gosub(_) => "gosub",
            StmtKind::Return(_) => "return",
            StmtKind::CallSub { .. } => "callsub",
            StmtKind::ExitProc => "exitproc",
            StmtKind::OnErrorGoto(_) => "onerrorgoto",
            StmtKind::OnErrorGoto0 => "onerrorgoto0",
            StmtKind::OnErrorResumeNext => "onerrorresumenext",
            StmtKind::Resume(_) => "resume",
            StmtKind::End => "end",
            StmtKind::Fail(_) => "fail",
            StmtKind::Open { .. } => "open",
            StmtKind::Close(_) => "close",
            StmtKind::InputFile { .. } => "input#",
            StmtKind::LineInputFile { .. } => "lineinput#",
            StmtKind::InputCon { .. } => "input",
            StmtKind::LineInputCon { .. } => "lineinput",
            StmtKind::Kill(_) => "kill",
            StmtKind::NameAs(_, _) => "name",
            StmtKind::Field { .. } => "field",
            StmtKind::Lset { .. } => "lset",
            StmtKind::Put { .. } => "put",
            StmtKind::Get { .. } => "get",
        }
    }
}

#[derive(Clone, Debug, PartialEq, Serialize, Deserialize)]
pub struct Proc {
    pub name: String,
    pub is_function: bool,
    /// integer parameters, e.g. ["P1%"]
    pub params: Vec<String>,
    pub body: Vec<Stmt>,
    /// declared STATIC
    #[serde(default)]
    pub is_static: bool,
}

/// One program.
#[derive(Clone, Debug, PartialEq, Serialize, Deserialize, Default)]
pub struct Scenario {
    /// top-level statement list of the main module (including END, GOSUB
    /// bodies and handlers after it)
    pub main: Vec<Stmt>,
    pub procs: Vec<Proc>,
    pub stdin: Vec<u8>,
}

/// A history: programs run one after the other over one persistent store.
#[derive(Clone, Debug, PartialEq, Serialize, Deserialize, Default)]
pub struct History {
    pub programs: Vec<Scenario>,
    /// initial files
    pub files: Vec<(String, Vec<u8>)>,
    /// names that are directories
    pub dirs: Vec<String>,
}

impl Scenario {
    pub fn max_id(&self) -> StmtId {
        fn walk(list: &[Stmt], m: &mut StmtId) {
            for s in list {
                *m = (*m).max(s.id);
                for b in children(&s.kind) {
                    walk(b, m);
                }
                if let StmtKind::IfLine { then_s, else_s, .. } = &s.kind {
                    *m = (*m).max(then_s.id);
                    if let Some(e) = else_s {
                        *m = (*m).max(e.id);
                    }
                }
            }
        }
        let mut m = 0;
        walk(&self.main, &mut m);
        for p in &self.procs {
            walk(&p.body, &mut m);
        }
        m
    }

    /// Applies `f` to every statement (pre-order).
    pub fn for_each<'a>(&'a self, f: &mut dyn FnMut(&'a Stmt)) {
        fn walk<'a>(list: &'a [Stmt], f: &mut dyn FnMut(&'a Stmt)) {
            for s in list {
                f(s);
                for b in children(&s.kind) {
                    walk(b, f);
                }
                if let StmtKind::IfLine { then_s, else_s, .. } = &s.kind {
                    f(then_s);
                    if let Some(e) = else_s {
                        f(e);
                    }
                }
            }
        }
        walk(&self.main, f);
        for p in &self.procs {
            walk(&p.body, f);
        }
    }

    pub fn count_stmts(&self) -> usize {
        let mut n = 0;
        self.for_each(&mut |_| n += 1);
        n
    }
}

/// Nested statement lists of a block statement.
pub fn children(k: &StmtKind) -> Vec<&Vec<Stmt>> {
    match k {
        StmtKind::If {
            then_b,
            elseifs,
            else_b,
            ..
        } => {
            let mut v = vec![then_b];
            for (_, b) in elseifs {
                v.push(b);
            }
            if let Some(e) = else_b {
                v.push(e);
            }
            v
        }
        StmtKind::For { body, .. } | StmtKind::While { body, .. } | StmtKind::Do { body, .. } => {
            vec![body]
        }
        StmtKind::Select { cases, else_b, .. } => {
            let mut v: Vec<&Vec<Stmt>> = cases.iter().map(|(_, b)| b).collect();
            if let Some(e) = else_b {
                v.push(e);
            }
            v
        }
        _ => vec![],
    }
}

pub fn children_mut(k: &mut StmtKind) -> Vec<&mut Vec<Stmt>> {
    match k {
        StmtKind::If {
            then_b,
            elseifs,
            else_b,
            ..
        } => {
            let mut v = vec![then_b];
            for (_, b) in elseifs.iter_mut() {
                v.push(b);
            }
            if let Some(e) = else_b {
                v.push(e);
            }
            v
        }
        StmtKind::For { body, .. } | StmtKind::While { body, .. } | StmtKind::Do { body, .. } => {
            vec![body]
        }
        StmtKind::Select { cases, else_b, .. } => {
            let mut v: Vec<&mut Vec<Stmt>> = cases.iter_mut().map(|(_, b)| b).collect();
            if let Some(e) = else_b {
                v.push(e);
            }
            v
        }
        _ => vec![],
    }
}
