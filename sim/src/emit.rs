//! Emits BASIC text from a scenario under a chosen layout, tracking the
//! (row, column span) of every simple statement independently of the
//! implementation's own position tracking.

use std::collections::HashMap;

use serde::{Deserialize, Serialize};

use crate::dsl::*;
use crate::prng::Rng;
use crate::world::Span;

#[derive(Clone, Copy, Debug, PartialEq, Eq, Serialize, Deserialize)]
pub enum Eol {
    Lf,
    CrLf,
    Cr,
    /// a different line ending on every line
    Mixed,
}

#[derive(Clone, Copy, Debug, PartialEq, Eq, Serialize, Deserialize)]
pub enum Case {
    Upper,
    Lower,
    Mixed,
}

#[derive(Clone, Debug, PartialEq, Eq, Serialize, Deserialize)]
pub struct Layout {
    pub eol: Eol,
    /// percent chance to join a simple statement to the previous one with a colon
    pub colon_pct: u32,
    pub blank_pct: u32,
    pub comment_line_pct: u32,
    pub trailing_comment_pct: u32,
    pub case: Case,
    pub indent: usize,
    /// extra blanks around tokens
    pub spacey: bool,
    pub seed: u64,
    /// load the program through the file loader (parse_main_file) instead of
    /// parse_main_str
    #[serde(default)]
    pub via_file: bool,
    /// percent chance of a CONST line between two statements at the top level of the main
    /// module (a statement that generates no instruction: two statement starts share one
    /// address)
    #[serde(default)]
    pub const_pct: u32,
}

impl Layout {
    pub fn canonical() -> Self {
        Layout {
            eol: Eol::Lf,
            colon_pct: 0,
            blank_pct: 0,
            comment_line_pct: 0,
            trailing_comment_pct: 0,
            case: Case::Upper,
            indent: 2,
            spacey: false,
            seed: 0,
            via_file: false,
            const_pct: 0,
        }
    }

    pub fn random(rng: &mut Rng, allow_cr: bool) -> Self {
        let eol = match rng.below(if allow_cr { 6 } else { 4 }) {
            0 | 1 => Eol::Lf,
            2 | 3 => Eol::CrLf,
            4 => Eol::Cr,
            _ => Eol::Mixed,
        };
        Layout {
            eol,
            colon_pct: *rng.pick(&[0, 0, 20, 50]),
            blank_pct: *rng.pick(&[0, 10, 30]),
            comment_line_pct: *rng.pick(&[0, 10, 25]),
            trailing_comment_pct: *rng.pick(&[0, 0, 15]),
            case: *rng.pick(&[Case::Upper, Case::Upper, Case::Lower, Case::Mixed]),
            indent: rng.below(5),
            spacey: rng.chance(1, 4),
            seed: rng.next_u64(),
            via_file: rng.chance(1, 3),
            const_pct: *rng.pick(&[0, 0, 12]),
        }
    }
}

#[derive(Clone, Debug, Default)]
pub struct Emitted {
    pub text: String,
    /// spans of simple statements
    pub spans: Vec<Span>,
    /// (row, col) of the first character of every statement (simple and block)
    pub starts: HashMap<StmtId, (u32, u32)>,
    /// rows of the secondary header lines of a block statement: (stmt, k) where k = 1..
    /// for ELSEIF conditions, CASE lines and the LOOP line of a bottom-tested DO
    pub extra_rows: HashMap<(StmtId, usize), u32>,
    /// text of the header lines of block statements: (stmt, k) -> (row, first, last column);
    /// k = 0 for the first line, k as in `extra_rows` for the others
    pub header_spans: HashMap<(StmtId, usize), (u32, u32, u32)>,
    /// for every line that holds code: (row, first column, last column) of the code
    pub code_lines: Vec<(u32, u32, u32)>,
    pub rows: u32,
}

struct Emitter<'a> {
    layout: &'a Layout,
    rng: Rng,
    lines: Vec<String>,
    cur: String,
    /// the current line ends with a comment or a construct nothing may follow
    closed: bool,
    /// the current line holds at least one joinable statement
    has_stmt: bool,
    cur_in_function: Option<bool>,
    /// emitting the main module (CONST filler lines are placed there only)
    in_main: bool,
    const_no: u32,
    last_line_c0: u32,
    out: Emitted,
}

impl<'a> Emitter<'a> {
    fn kw(&mut self, s: &str) -> String {
        match self.layout.case {
            Case::Upper => s.to_string(),
            Case::Lower => s.to_lowercase(),
            Case::Mixed => {
                let mut out = String::new();
                for ch in s.chars() {
                    if self.rng.chance(1, 2) {
                        out.push(ch.to_ascii_lowercase());
                    } else {
                        out.push(ch);
                    }
                }
                out
            }
        }
    }

    fn ident(&mut self, s: &str) -> String {
        self.kw(s)
    }

    fn sp(&mut self) -> &'static str {
        if self.layout.spacey && self.rng.chance(1, 3) {
            "  "
        } else {
            " "
        }
    }

    fn row(&self) -> u32 {
        self.lines.len() as u32 + 1
    }

    fn col(&self) -> u32 {
        // the parser counts characters, not bytes
        self.cur.chars().count() as u32 + 1
    }

    fn newline(&mut self) {
        // the code portion of the line (string literals never contain an apostrophe)
        let code = match self.cur.find('\'') {
            Some(i) => &self.cur[..i],
            None => &self.cur[..],
        };
        let trimmed_end = code.trim_end().chars().count();
        let lead = code.chars().count() - code.trim_start().chars().count();
        if trimmed_end > lead {
            let row = self.lines.len() as u32 + 1;
            self.out
                .code_lines
                .push((row, lead as u32 + 1, trimmed_end as u32));
        }
        let l = std::mem::take(&mut self.cur);
        self.lines.push(l);
        self.closed = false;
        self.has_stmt = false;
    }

    fn filler(&mut self, depth: usize) {
        if depth == 0 && self.in_main && self.rng.chance(self.layout.const_pct, 100) {
            self.const_no += 1;
            let t = format!("{} {} = {}", self.kw("CONST"), self.ident(&format!("ZK{}", self.const_no)), self.const_no);
            self.cur.push_str(&t);
            self.newline();
        }
        // blank lines and comment lines between statements
        while self.rng.chance(self.layout.blank_pct, 100) {
            self.newline();
        }
        if self.rng.chance(self.layout.comment_line_pct, 100) {
            let c = if self.rng.chance(1, 2) {
                "' note: x = 1 : PRINT \"no\"".to_string()
            } else {
                "'".to_string()
            };
            self.cur.push_str(&c);
            self.newline();
        }
    }

    /// Starts a fresh line (if the current one is not empty) with indentation.
    fn fresh(&mut self, depth: usize) {
        if !self.cur.is_empty() {
            self.newline();
        }
        self.filler(depth);
        for _ in 0..(self.layout.indent * depth) {
            self.cur.push(' ');
        }
    }

    fn str_lit(&mut self, s: &str) -> String {
        // control characters cannot appear inside a literal: build with CHR$
        let mut parts: Vec<String> = vec![];
        let mut buf = String::new();
        for ch in s.chars() {
            if (ch as u32) < 32 || ch == '"' {
                if !buf.is_empty() {
                    parts.push(format!("\"{}\"", buf));
                    buf.clear();
                }
                let c = self.kw("CHR$");
                parts.push(format!("{}({})", c, ch as u32));
            } else {
                buf.push(ch);
                // the parser rejects long string literals ("IdentifierTooLong")
                if buf.len() >= 30 {
                    parts.push(format!("\"{}\"", buf));
                    buf.clear();
                }
            }
        }
        if !buf.is_empty() || parts.is_empty() {
            parts.push(format!("\"{}\"", buf));
        }
        parts.join(" + ")
    }

    fn expr(&mut self, e: &Expr, right_operand: bool) -> String {
        match e {
            Expr::Int(n) => {
                if *n < 0 && right_operand {
                    format!("({})", n)
                } else {
                    format!("{}", n)
                }
            }
            Expr::Num(n) => {
                if n.value < 0.0 && right_operand {
                    format!("({})", n.text)
                } else {
                    n.text.clone()
                }
            }
            Expr::Str(s) => self.str_lit(s),
            Expr::Var(v) | Expr::SVar(v) => self.ident(v),
            Expr::Add(a, b) => {
                let (a, b) = (self.expr(a, true), self.expr(b, true));
                format!("{} + {}", a, b)
            }
            Expr::Sub(a, b) => {
                let a = self.expr(a, true);
                let b = match &**b {
                    Expr::Add(..) | Expr::Sub(..) => format!("({})", self.expr(b, false)),
                    _ => self.expr(b, true),
                };
                format!("{} - {}", a, b)
            }
            Expr::Mul(a, b) => {
                let wrap = |s: &mut Self, x: &Expr, right: bool| -> String {
                    match x {
                        Expr::Add(..) | Expr::Sub(..) | Expr::Cmp(..) => {
                            format!("({})", s.expr(x, false))
                        }
                        _ => s.expr(x, right),
                    }
                };
                let a = wrap(self, a, true);
                let b = wrap(self, b, true);
                format!("{} * {}", a, b)
            }
            Expr::Cmp(op, a, b) => {
                let (a, b) = (self.expr(a, true), self.expr(b, true));
                format!("{} {} {}", a, op.text(), b)
            }
            Expr::Call(name, args) => {
                let n = self.ident(name);
                let a: Vec<String> = args.iter().map(|x| self.expr(x, false)).collect();
                format!("{}({})", n, a.join(", "))
            }
            Expr::Err => self.kw("ERR"),
            Expr::Eof(h) => format!("{}({})", self.kw("EOF"), h),
            Expr::Paren(x) => format!("({})", self.expr(x, false)),
            Expr::Quot(x) => {
                let inner = self.expr(x, false);
                format!("({} / {})", inner, self.ident("DZ%"))
            }
            Expr::LenOf(t) => format!("{}(\"{}\")", self.kw("LEN"), t),
        }
    }

    fn simple_text(&mut self, s: &Stmt) -> String {
        match &s.kind {
            StmtKind::Print { dev, items, using } => {
                let mut t = match dev {
                    Dev::Screen => self.kw("PRINT"),
                    Dev::Lpt1 => self.kw("LPRINT"),
                    Dev::File(h) => format!("{} #{},", self.kw("PRINT"), h),
                };
                if let Some(f) = using {
                    t.push(' ');
                    t.push_str(&self.kw("USING"));
                    t.push(' ');
                    t.push_str(&self.str_lit(f));
                    t.push(';');
                }
                let mut prev_expr = false;
                for it in items {
                    match it {
                        PItem::E(e) => {
                            debug_assert!(!prev_expr, "two adjacent expressions in PRINT");
                            t.push(' ');
                            t.push_str(&self.expr(e, false));
                            prev_expr = true;
                        }
                        PItem::Comma => {
                            if !prev_expr {
                                t.push(' ');
                            }
                            t.push(',');
                            prev_expr = false;
                        }
                        PItem::Semi => {
                            if !prev_expr {
                                t.push(' ');
                            }
                            t.push(';');
                            prev_expr = false;
                        }
                    }
                }
                t
            }
            StmtKind::Assign { var, expr } | StmtKind::SAssign { var, expr } => {
                let v = self.ident(var);
                let sp = self.sp();
                format!("{}{}={}{}", v, sp, sp, self.expr(expr, false))
            }
            StmtKind::Goto(l) => format!("{} {}", self.kw("GOTO"), self.ident(l)),
            StmtKind::Gosub(l) => format!("{} {}", self.kw("GOSUB"), self.ident(l)),
            StmtKind::Return(None) => self.kw("RETURN"),
            StmtKind::Return(Some(l)) => format!("{} {}", self.kw("RETURN"), self.ident(l)),
            StmtKind::CallSub { name, args } => {
                let n = self.ident(name);
                if args.is_empty() {
                    n
                } else {
                    let a: Vec<String> = args.iter().map(|x| self.expr(x, false)).collect();
                    format!("{} {}", n, a.join(", "))
                }
            }
            StmtKind::ExitProc => {
                if self.cur_in_function == Some(true) {
                    self.kw("EXIT FUNCTION")
                } else {
                    self.kw("EXIT SUB")
                }
            }
            StmtKind::OnErrorGoto(l) => {
                format!("{} {}", self.kw("ON ERROR GOTO"), self.ident(l))
            }
            StmtKind::OnErrorGoto0 => format!("{} 0", self.kw("ON ERROR GOTO")),
            StmtKind::OnErrorResumeNext => self.kw("ON ERROR RESUME NEXT"),
            StmtKind::Resume(ResumeKind::Bare) => self.kw("RESUME"),
            StmtKind::Resume(ResumeKind::Next) => self.kw("RESUME NEXT"),
            StmtKind::Resume(ResumeKind::Label(l)) => {
                format!("{} {}", self.kw("RESUME"), self.ident(l))
            }
            StmtKind::End => self.kw("END"),
            StmtKind::Fail(k) => {
                let q = self.ident("Q%");
                let z = self.ident("ZZ%");
                match k {
                    FailKind::DivZero => format!("{} = 1 / {}", q, z),
                    FailKind::Subscript => format!("{} = {}(50)", q, self.ident("AR%")),
                    FailKind::Overflow => format!("{} = 40000 + {}", q, z),
                    FailKind::IllegalCall => format!(
                        "{} = {}(\"abc\", {} - 1)",
                        self.ident("Q$"),
                        self.kw("LEFT$"),
                        z
                    ),
                    FailKind::DivZeroMid => format!("{} = 7 + (1 / {})", q, z),
                    FailKind::PrintThenDivZero => {
                        format!("{} \"x\"; 1 / {}", self.kw("PRINT"), z)
                    }
                    FailKind::BadHandle => format!("{} 300", self.kw("CLOSE")),
                    FailKind::DivZeroNestedArgs => {
                        let f = self.ident("FI%");
                        format!("{} = {}(({}((1 / {}))))", q, f, f, z)
                    }
                    FailKind::DivZeroSubCallArg => format!("{} (1 / {})", self.ident("SI"), z),
                    FailKind::DivZeroBuiltInArgs => format!(
                        "{} = {}({}(1 / {}))",
                        q,
                        self.kw("LEN"),
                        self.kw("STR$"),
                        z
                    ),
                }
            }
            StmtKind::Open {
                name,
                mode,
                handle,
                len,
            } => {
                let m = match mode {
                    Mode::Input => "INPUT",
                    Mode::Output => "OUTPUT",
                    Mode::Append => "APPEND",
                    Mode::Random => "RANDOM",
                };
                // equivalent spellings (non-canonical layouts only): AS without '#', ACCESS
                // READ on an input file, RANDOM as the default mode
                let vary = self.layout.seed != 0;
                let hash = if vary && self.rng.chance(1, 4) { "" } else { "#" };
                let mut t = if vary && *mode == Mode::Random && self.rng.chance(1, 3) {
                    format!("{} \"{}\" {} {}{}", self.kw("OPEN"), name, self.kw("AS"), hash, handle)
                } else {
                    let access = if vary && *mode == Mode::Input && self.rng.chance(1, 4) {
                        format!(" {}", self.kw("ACCESS READ"))
                    } else {
                        String::new()
                    };
                    format!(
                        "{} \"{}\" {} {}{} {} {}{}",
                        self.kw("OPEN"),
                        name,
                        self.kw("FOR"),
                        self.kw(m),
                        access,
                        self.kw("AS"),
                        hash,
                        handle
                    )
                };
                if let Some(l) = len {
                    t.push_str(&format!(" {} = {}", self.kw("LEN"), l));
                }
                t
            }
            StmtKind::Close(hs) => {
                let mut t = self.kw("CLOSE");
                for (i, h) in hs.iter().enumerate() {
                    t.push_str(if i == 0 { " " } else { ", " });
                    if self.layout.seed != 0 && self.rng.chance(1, 4) {
                        t.push_str(&format!("{}", h));
                    } else {
                        t.push_str(&format!("#{}", h));
                    }
                }
                t
            }
            StmtKind::InputFile { handle, vars } => {
                let v: Vec<String> = vars.iter().map(|x| self.ident(x)).collect();
                format!("{} #{}, {}", self.kw("INPUT"), handle, v.join(", "))
            }
            StmtKind::LineInputFile { handle, var } => {
                format!("{} #{}, {}", self.kw("LINE INPUT"), handle, self.ident(var))
            }
            StmtKind::InputCon { vars } => {
                let v: Vec<String> = vars.iter().map(|x| self.ident(x)).collect();
                format!("{} {}", self.kw("INPUT"), v.join(", "))
            }
            StmtKind::LineInputCon { var } => {
                format!("{} {}", self.kw("LINE INPUT"), self.ident(var))
            }
            StmtKind::Kill(n) => format!("{} \"{}\"", self.kw("KILL"), n),
            StmtKind::NameAs(a, b) => {
                format!("{} \"{}\" {} \"{}\"", self.kw("NAME"), a, self.kw("AS"), b)
            }
            StmtKind::Field { handle, fields } => {
                let f: Vec<String> = fields
                    .iter()
                    .map(|(w, v)| format!("{} {} {}", w, self.kw("AS"), self.ident(v)))
                    .collect();
                format!("{} #{}, {}", self.kw("FIELD"), handle, f.join(", "))
            }
            StmtKind::Lset { var, expr } => {
                format!(
                    "{} {} = {}",
                    self.kw("LSET"),
                    self.ident(var),
                    self.expr(expr, false)
                )
            }
            StmtKind::Put { handle, rec } => format!("{} #{}, {}", self.kw("PUT"), handle, rec),
            StmtKind::Get { handle, rec } => format!("{} #{}, {}", self.kw("GET"), handle, rec),
            StmtKind::Label(_)
            | StmtKind::If { .. }
            | StmtKind::IfLine { .. }
            | StmtKind::For { .. }
            | StmtKind::While { .. }
            | StmtKind::Do { .. }
            | StmtKind::Select { .. } => unreachable!(),
        }
    }

    /// FOR ...: body: NEXT on the current line (the body holds simple statements and
    /// one-line FOR loops only).
    fn one_line_for(&mut self, s: &Stmt, in_function: Option<bool>) {
        if let StmtKind::For {
            var,
            from,
            to,
            step,
            body,
        } = &s.kind
        {
            let mut t = format!(
                "{} {} = {} {} {}",
                self.kw("FOR"),
                self.ident(var),
                self.expr(from, false),
                self.kw("TO"),
                self.expr(to, false)
            );
            if let Some(st) = step {
                t.push_str(&format!(" {} {}", self.kw("STEP"), self.expr(st, false)));
            }
            self.out.starts.insert(s.id, (self.row(), self.col()));
            let c0 = self.col();
            self.cur.push_str(&t);
            let c1 = self.col().saturating_sub(1).max(c0);
            self.out.header_spans.insert((s.id, 0), (self.row(), c0, c1));
            for b in body {
                self.cur.push_str(" : ");
                match &b.kind {
                    StmtKind::For { .. } => self.one_line_for(b, in_function),
                    StmtKind::ExitProc => {
                        let t = if in_function == Some(true) {
                            self.kw("EXIT FUNCTION")
                        } else {
                            self.kw("EXIT SUB")
                        };
                        self.place(b.id, &t);
                    }
                    _ => {
                        let t = self.simple_text(b);
                        self.place(b.id, &t);
                    }
                }
            }
            self.cur.push_str(" : ");
            let t = self.kw("NEXT");
            self.cur.push_str(&t);
        }
    }

    /// Appends a simple statement's text at the current position and records its span.
    fn place(&mut self, id: StmtId, text: &str) {
        let row = self.row();
        let col_start = self.col();
        self.cur.push_str(text);
        let col_end = self.col() - 1;
        self.out.spans.push(Span {
            stmt: id,
            row,
            col_start,
            col_end,
        });
        self.out.starts.insert(id, (row, col_start));
    }

    fn simple(&mut self, s: &Stmt, depth: usize, in_function: Option<bool>) {
        let text = match &s.kind {
            StmtKind::ExitProc => {
                if in_function == Some(true) {
                    self.kw("EXIT FUNCTION")
                } else {
                    self.kw("EXIT SUB")
                }
            }
            _ => self.simple_text(s),
        };
        let join = !self.cur.trim().is_empty()
            && self.has_stmt
            && !self.closed
            && self.rng.chance(self.layout.colon_pct, 100);
        if join {
            let sp = self.sp();
            self.cur.push_str(sp);
            self.cur.push(':');
            self.cur.push_str(sp);
        } else {
            self.fresh(depth);
        }
        self.place(s.id, &text);
        self.has_stmt = true;
        if self.rng.chance(self.layout.trailing_comment_pct, 100) {
            self.cur.push_str(" ' trailing : PRINT 1");
            self.closed = true;
        }
    }

    fn header(&mut self, id: StmtId, depth: usize, text: &str) {
        self.fresh(depth);
        self.out.starts.insert(id, (self.row(), self.col()));
        let c0 = self.col();
        self.cur.push_str(text);
        let c1 = self.col().saturating_sub(1).max(c0);
        self.out.header_spans.insert((id, 0), (self.row(), c0, c1));
        self.closed = true;
    }

    fn line(&mut self, depth: usize, text: &str) {
        self.fresh(depth);
        self.last_line_c0 = self.col();
        self.cur.push_str(text);
        self.closed = true;
    }

    /// records the line written last by `line` as header line k of block `id`
    fn extra_header(&mut self, id: StmtId, k: usize) {
        let row = self.row();
        self.out.extra_rows.insert((id, k), row);
        let c1 = self.col().saturating_sub(1).max(self.last_line_c0);
        self.out.header_spans.insert((id, k), (row, self.last_line_c0, c1));
    }

    fn list(&mut self, list: &[Stmt], depth: usize, in_function: Option<bool>) {
        for s in list {
            match &s.kind {
                StmtKind::Label(l) => {
                    let t = format!("{}:", self.ident(l));
                    self.header(s.id, 0, &t);
                }
                StmtKind::If {
                    cond,
                    then_b,
                    elseifs,
                    else_b,
                } => {
                    let t = format!(
                        "{} {} {}",
                        self.kw("IF"),
                        self.expr(cond, false),
                        self.kw("THEN")
                    );
                    self.header(s.id, depth, &t);
                    self.list(then_b, depth + 1, in_function);
                    for (ei, (c, b)) in elseifs.iter().enumerate() {
                        let t = format!(
                            "{} {} {}",
                            self.kw("ELSEIF"),
                            self.expr(c, false),
                            self.kw("THEN")
                        );
                        self.line(depth, &t);
                        self.extra_header(s.id, ei + 1);
                        self.list(b, depth + 1, in_function);
                    }
                    if let Some(b) = else_b {
                        let t = self.kw("ELSE");
                        self.line(depth, &t);
                        self.list(b, depth + 1, in_function);
                    }
                    let t = self.kw("END IF");
                    self.line(depth, &t);
                }
                StmtKind::IfLine {
                    cond,
                    then_s,
                    else_s,
                } => {
                    let t = format!(
                        "{} {} {} ",
                        self.kw("IF"),
                        self.expr(cond, false),
                        self.kw("THEN")
                    );
                    self.header(s.id, depth, &t);
                    let tt = self.simple_text(then_s);
                    self.place(then_s.id, &tt);
                    if let Some(e) = else_s {
                        let k = format!(" {} ", self.kw("ELSE"));
                        self.cur.push_str(&k);
                        let et = self.simple_text(e);
                        self.place(e.id, &et);
                    }
                    self.closed = true;
                }
                StmtKind::For {
                    var,
                    from,
                    to,
                    step,
                    body,
                } => {
                    let mut t = format!(
                        "{} {} = {} {} {}",
                        self.kw("FOR"),
                        self.ident(var),
                        self.expr(from, false),
                        self.kw("TO"),
                        self.expr(to, false)
                    );
                    if let Some(st) = step {
                        t.push_str(&format!(" {} {}", self.kw("STEP"), self.expr(st, false)));
                    }
                    // a loop whose body holds only simple statements (or such loops) may be
                    // written on one line, colon-joined
                    fn one_line_able(body: &[Stmt]) -> bool {
                        body.len() <= 3
                            && body.iter().all(|b| match &b.kind {
                                StmtKind::For { body, .. } => one_line_able(body),
                                StmtKind::Label(_) => false,
                                k => !k.is_block(),
                            })
                    }
                    if self.layout.colon_pct > 0
                        && one_line_able(body)
                        && self.rng.chance(self.layout.colon_pct, 150)
                    {
                        self.fresh(depth);
                        self.out.starts.insert(s.id, (self.row(), self.col()));
                        self.one_line_for(s, in_function);
                        self.closed = true;
                        continue;
                    }
                    self.header(s.id, depth, &t);
                    self.list(body, depth + 1, in_function);
                    let t = if self.rng.chance(1, 2) {
                        self.kw("NEXT")
                    } else {
                        format!("{} {}", self.kw("NEXT"), self.ident(var))
                    };
                    self.line(depth, &t);
                }
                StmtKind::While { cond, body } => {
                    let t = format!("{} {}", self.kw("WHILE"), self.expr(cond, false));
                    self.header(s.id, depth, &t);
                    self.list(body, depth + 1, in_function);
                    let t = self.kw("WEND");
                    self.line(depth, &t);
                }
                StmtKind::Do {
                    top,
                    until,
                    cond,
                    body,
                } => {
                    let k = if *until { "UNTIL" } else { "WHILE" };
                    let c = format!("{} {}", self.kw(k), self.expr(cond, false));
                    if *top {
                        let t = format!("{} {}", self.kw("DO"), c);
                        self.header(s.id, depth, &t);
                    } else {
                        let t = self.kw("DO");
                        self.header(s.id, depth, &t);
                    }
                    self.list(body, depth + 1, in_function);
                    if *top {
                        let t = self.kw("LOOP");
                        self.line(depth, &t);
                    } else {
                        let t = format!("{} {}", self.kw("LOOP"), c);
                        self.line(depth, &t);
                        self.extra_header(s.id, 1);
                    }
                }
                StmtKind::Select {
                    expr,
                    cases,
                    else_b,
                } => {
                    let t = format!("{} {}", self.kw("SELECT CASE"), self.expr(expr, false));
                    self.header(s.id, depth, &t);
                    for (ci, (specs, b)) in cases.iter().enumerate() {
                        let mut parts = vec![];
                        for sp in specs {
                            parts.push(match sp {
                                CaseSpec::Simple(e) => self.expr(e, false),
                                CaseSpec::Is(op, e) => {
                                    format!("{} {} {}", self.kw("IS"), op.text(), self.expr(e, false))
                                }
                                CaseSpec::Range(a, b) => format!(
                                    "{} {} {}",
                                    self.expr(a, false),
                                    self.kw("TO"),
                                    self.expr(b, false)
                                ),
                            });
                        }
                        let t = format!("{} {}", self.kw("CASE"), parts.join(", "));
                        self.line(depth, &t);
                        self.extra_header(s.id, ci + 1);
                        self.list(b, depth + 1, in_function);
                    }
                    if let Some(b) = else_b {
                        let t = self.kw("CASE ELSE");
                        self.line(depth, &t);
                        self.list(b, depth + 1, in_function);
                    }
                    let t = self.kw("END SELECT");
                    self.line(depth, &t);
                }
                _ => self.simple(s, depth, in_function),
            }
        }
    }
}

fn uses_fail(sc: &Scenario, kind: FailKind) -> bool {
    let mut found = false;
    sc.for_each(&mut |s| {
        if let StmtKind::Fail(k) = &s.kind {
            if *k == kind {
                found = true;
            }
        }
    });
    found
}

fn uses_subscript(list: &[Stmt]) -> bool {
    let mut found = false;
    fn walk(list: &[Stmt], found: &mut bool) {
        for s in list {
            if let StmtKind::Fail(FailKind::Subscript) = s.kind {
                *found = true;
            }
            for b in children(&s.kind) {
                walk(b, found);
            }
            if let StmtKind::IfLine { then_s, else_s, .. } = &s.kind {
                walk(std::slice::from_ref(then_s), found);
                if let Some(e) = else_s {
                    walk(std::slice::from_ref(e), found);
                }
            }
        }
    }
    walk(list, &mut found);
    found
}

pub fn emit(sc: &Scenario, layout: &Layout) -> Emitted {
    let mut e = Emitter {
        layout,
        rng: Rng::new(layout.seed),
        lines: vec![],
        cur: String::new(),
        closed: false,
        has_stmt: false,
        cur_in_function: None,
        in_main: true,
        const_no: 0,
        last_line_c0: 1,
        out: Emitted::default(),
    };
    if uses_subscript(&sc.main) {
        let t = format!("{} {}(5)", e.kw("DIM"), e.ident("AR%"));
        e.line(0, &t);
    }
    e.list(&sc.main, 0, None);
    e.in_main = false;
    for p in &sc.procs {
        let params: Vec<String> = p.params.iter().map(|x| e.ident(x)).collect();
        let head = if p.is_function { "FUNCTION" } else { "SUB" };
        let mut t = format!("{} {}", e.kw(head), e.ident(&p.name));
        if !params.is_empty() {
            t.push_str(&format!(" ({})", params.join(", ")));
        }
        if p.is_static {
            t.push_str(&format!(" {}", e.kw("STATIC")));
        }
        e.line(0, &t);
        if uses_subscript(&p.body) {
            let t = format!("{} {}(5)", e.kw("DIM"), e.ident("AR%"));
            e.line(1, &t);
        }
        e.cur_in_function = Some(p.is_function);
        e.list(&p.body, 1, Some(p.is_function));
        e.cur_in_function = None;
        let t = format!("{} {}", e.kw("END"), e.kw(head));
        e.line(0, &t);
    }
    if uses_fail(sc, FailKind::DivZeroNestedArgs) {
        // identity function used by the nested-argument failure
        let t = format!("{} {} ({})", e.kw("FUNCTION"), e.ident("FI%"), e.ident("P1%"));
        e.line(0, &t);
        let t = format!("{} = {}", e.ident("FI%"), e.ident("P1%"));
        e.line(1, &t);
        let t = format!("{} {}", e.kw("END"), e.kw("FUNCTION"));
        e.line(0, &t);
    }
    if uses_fail(sc, FailKind::DivZeroSubCallArg) {
        // empty SUB called by the failing call statement
        let t = format!("{} {} ({})", e.kw("SUB"), e.ident("SI"), e.ident("P1%"));
        e.line(0, &t);
        let t = format!("{} {}", e.kw("END"), e.kw("SUB"));
        e.line(0, &t);
    }
    if !e.cur.is_empty() {
        e.newline();
    }
    let mut text = String::new();
    let mut prev_cr = false;
    let lines = std::mem::take(&mut e.lines);
    for l in &lines {
        let eol = match layout.eol {
            Eol::Lf => "\n",
            Eol::CrLf => "\r\n",
            Eol::Cr => "\r",
            Eol::Mixed => {
                // an empty line after a CR-terminated line must not end in a bare LF:
                // the two bytes would read as one CR LF
                if prev_cr && l.is_empty() {
                    *e.rng.pick(&["\r", "\r\n"])
                } else {
                    *e.rng.pick(&["\n", "\r\n", "\r"])
                }
            }
        };
        prev_cr = eol == "\r";
        text.push_str(l);
        text.push_str(eol);
    }
    e.lines = lines;
    e.out.rows = e.lines.len() as u32;
    e.out.text = text;
    e.out
}
