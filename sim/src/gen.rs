//! Seeded scenario generators (swarm style: every scenario draws its own
//! feature mask, sizes and mix).

use serde::{Deserialize, Serialize};

use crate::dsl::*;
use crate::prng::Rng;

#[derive(Clone, Copy, Debug, PartialEq, Eq, Serialize, Deserialize)]
pub enum Profile {
    /// control flow, handlers, calls (C05 / C11 / C15)
    ControlFlow,
    /// PRINT histories over four devices (C16)
    Print,
    /// file histories (C18)
    Files,
}

/// Per-scenario feature mask.
#[derive(Clone, Debug, Serialize, Deserialize)]
pub struct Features {
    pub for_plain: bool,
    pub for_step: bool,
    pub while_loop: bool,
    pub do_loop: bool,
    pub if_block: bool,
    pub if_line: bool,
    pub select: bool,
    pub goto_fwd: bool,
    pub goto_back: bool,
    pub goto_out_of_loop: bool,
    pub gosub: bool,
    pub return_label: bool,
    pub stray_return: bool,
    pub stray_resume: bool,
    pub subs: bool,
    pub functions: bool,
    pub recursion: bool,
    pub handler: bool,
    pub handler_in_sub: bool,
    pub on_error_goto_0: bool,
    pub on_error_resume_next: bool,
    pub resume_bare: bool,
    pub resume_label: bool,
    pub fails: bool,
    pub fail_mid_expression: bool,
    pub fail_in_print: bool,
    pub block_in_for_step: bool,
    pub io_lpt1: bool,
    pub io_files: bool,
    pub io_input: bool,
}

impl Features {
    pub fn random(rng: &mut Rng) -> Self {
        let mut b = |num: u32, den: u32| rng.chance(num, den);
        Features {
            for_plain: b(2, 3),
            for_step: b(1, 2),
            while_loop: b(1, 2),
            do_loop: b(1, 2),
            if_block: b(2, 3),
            if_line: b(1, 3),
            select: b(1, 2),
            goto_fwd: b(1, 3),
            goto_back: b(1, 4),
            goto_out_of_loop: b(1, 3),
            gosub: b(1, 2),
            return_label: b(1, 6),
            stray_return: b(1, 6),
            stray_resume: b(1, 8),
            subs: b(2, 3),
            functions: b(2, 3),
            recursion: b(1, 4),
            handler: b(4, 5),
            handler_in_sub: b(1, 5),
            on_error_goto_0: b(1, 4),
            on_error_resume_next: b(1, 5),
            resume_bare: b(1, 3),
            resume_label: b(1, 6),
            fails: b(3, 4),
            fail_mid_expression: b(1, 3),
            fail_in_print: b(1, 3),
            block_in_for_step: b(1, 2),
            io_lpt1: b(1, 3),
            io_files: b(1, 3),
            io_input: b(1, 4),
        }
    }
}

/// Triggers of known findings (DESIGN §4): when `strict`, the generator avoids them.
#[derive(Clone, Debug, Default, Serialize, Deserialize)]
pub struct Avoid {
    pub goto_out_of_for: bool,
    pub block_in_for_step: bool,
    pub fail_mid_expression: bool,
    pub goto_out_of_select: bool,
    pub print_item_calls_printing_function: bool,
    pub resume_next_mode_with_call_args: bool,
}

struct G<'r> {
    rng: &'r mut Rng,
    f: Features,
    avoid: Avoid,
    next_id: StmtId,
    /// labels available as forward GOTO targets in the list under construction
    gosub_bodies: Vec<Vec<Stmt>>,
    n_gosub: u32,
    n_labels: u32,
    procs: Vec<Proc>,
    /// names of callable subs / functions (index in procs), restricted while generating
    /// proc bodies to keep the call graph acyclic
    callable_subs: Vec<String>,
    callable_fns: Vec<String>,
    in_proc: bool,
    in_gosub_body: bool,
    in_for_depth: u32,
    in_for_step_depth: u32,
    in_select_depth: u32,
    in_loop_depth: u32,
    budget: i32,
    files_open: bool,
    stdin: Vec<u8>,
    trace_no: u32,
    has_fail_in_proc: bool,
    uses_resume_label: bool,
    pending_return_labels: Vec<String>,
    in_proc_now: bool,
}

const GLOBALS: [&str; 4] = ["G1%", "G2%", "G3%", "G4%"];
const LOCALS: [&str; 2] = ["L1%", "L2%"];

impl<'r> G<'r> {
    fn id(&mut self) -> StmtId {
        self.next_id += 1;
        self.next_id
    }

    fn st(&mut self, kind: StmtKind) -> Stmt {
        Stmt {
            id: self.id(),
            kind,
        }
    }

    fn vars(&self) -> Vec<&'static str> {
        if self.in_proc {
            let mut v = LOCALS.to_vec();
            v.push("P1%");
            v
        } else {
            GLOBALS.to_vec()
        }
    }

    fn var(&mut self) -> String {
        let v = self.vars();
        self.rng.pick(&v).to_string()
    }

    fn small(&mut self) -> i32 {
        self.rng.range(-3, 9) as i32
    }

    /// integer expression without side effects that cannot fail
    fn pure_expr(&mut self, depth: u32) -> Expr {
        match self.rng.below(if depth > 1 { 2 } else { 5 }) {
            0 => Expr::Int(self.small()),
            1 => Expr::Var(self.var()),
            2 => Expr::Add(
                Box::new(self.pure_expr(depth + 1)),
                Box::new(self.pure_expr(depth + 1)),
            ),
            3 => Expr::Sub(
                Box::new(self.pure_expr(depth + 1)),
                Box::new(Expr::Int(self.rng.range(0, 3) as i32)),
            ),
            _ => Expr::Mul(
                Box::new(self.pure_expr(depth + 1)),
                Box::new(Expr::Int(self.rng.range(0, 2) as i32)),
            ),
        }
    }

    /// expression that may call a FUNCTION
    fn expr(&mut self) -> Expr {
        if self.f.functions && !self.callable_fns.is_empty() && self.rng.chance(1, 3) {
            let name = self.rng.pick(&self.callable_fns).clone();
            let arg = self.pure_expr(1);
            // by-value arguments only: literals or parenthesised expressions
            let arg = match arg {
                Expr::Int(n) => Expr::Int(n),
                other => Expr::Paren(Box::new(other)),
            };
            let call = Expr::Call(name, vec![arg]);
            match self.rng.below(3) {
                0 => call,
                1 => Expr::Add(Box::new(Expr::Int(self.small())), Box::new(call)),
                _ => Expr::Add(Box::new(call), Box::new(Expr::Var(self.var()))),
            }
        } else {
            self.pure_expr(0)
        }
    }

    fn cond(&mut self) -> Expr {
        let op = *self
            .rng
            .pick(&[CmpOp::Eq, CmpOp::Ne, CmpOp::Lt, CmpOp::Le, CmpOp::Gt, CmpOp::Ge]);
        let a = self.expr();
        let b = Expr::Int(self.small());
        Expr::Cmp(op, Box::new(a), Box::new(b))
    }

    fn trace(&mut self) -> Stmt {
        self.trace_no += 1;
        // (now and then a character outside the basic plane, or two bytes wide: the
        // statements to its right on a colon-joined line keep their columns)
        let tail = if self.rng.chance(1, 12) {
            *self.rng.pick(&["\u{1F600}", "\u{e9}", "\u{10348}\u{10348}"])
        } else {
            ""
        };
        let mut items = vec![PItem::E(Expr::Str(format!("T{}{}", self.trace_no, tail)))];
        let n = self.rng.below(3);
        for _ in 0..n {
            items.push(PItem::Semi);
            items.push(PItem::E(Expr::Var(self.var())));
        }
        if !self.in_proc && self.in_gosub_body && self.rng.chance(1, 4) {
            // nothing special, kept for mix
        }
        if self.rng.chance(1, 6) && !self.f.on_error_resume_next {
            items.push(PItem::Semi);
            items.push(PItem::E(Expr::Err));
        }
        if self.rng.chance(1, 5) {
            // a string variable of the current scope: "every variable as the handler left it"
            // is not about INTEGERs only
            let v = if self.in_proc_now { "LS$" } else { "GS$" };
            items.push(PItem::Semi);
            items.push(PItem::E(Expr::Str("[".into())));
            items.push(PItem::Semi);
            items.push(PItem::E(Expr::SVar(v.into())));
            items.push(PItem::Semi);
            items.push(PItem::E(Expr::Str("]".into())));
        }
        let dev = if self.f.io_lpt1 && self.rng.chance(1, 4) {
            Dev::Lpt1
        } else if self.files_open && self.rng.chance(1, 4) {
            Dev::File(1)
        } else {
            Dev::Screen
        };
        self.st(StmtKind::Print {
            dev,
            items,
            using: None,
        })
    }

    fn fail_stmt(&mut self) -> Stmt {
        let mut kinds = vec![
            FailKind::DivZero,
            FailKind::Subscript,
            FailKind::Overflow,
            FailKind::IllegalCall,
            FailKind::BadHandle,
            FailKind::DivZeroNestedArgs,
            FailKind::DivZeroBuiltInArgs,
            FailKind::DivZeroSubCallArg,
        ];
        if self.f.fail_mid_expression && !self.avoid.fail_mid_expression {
            kinds.push(FailKind::DivZeroMid);
        }
        if self.f.fail_in_print {
            kinds.push(FailKind::PrintThenDivZero);
        }
        let k = *self.rng.pick(&kinds);
        if self.in_proc {
            self.has_fail_in_proc = true;
        }
        self.st(StmtKind::Fail(k))
    }

    fn simple(&mut self) -> Stmt {
        let w = [
            30u32, // trace
            15,    // assign
            if self.f.fails { 14 } else { 0 },
            if self.f.subs && !self.callable_subs.is_empty() {
                10
            } else {
                0
            },
            if self.f.gosub && !self.in_gosub_body { 8 } else { 0 },
            if self.f.stray_return && !self.in_gosub_body {
                2
            } else {
                0
            },
            if self.f.stray_resume { 1 } else { 0 },
            if self.f.io_input { 4 } else { 0 },
        ];
        match self.rng.weighted(&w) {
            0 => self.trace(),
            1 => {
                if self.rng.chance(1, 5) {
                    let v = if self.in_proc_now { "LS$" } else { "GS$" };
                    let lit = *self.rng.pick(&["a", "bc", "", "xyz", "q\u{e9}", "k9"]);
                    let expr = if self.rng.chance(1, 3) {
                        Expr::Add(
                            Box::new(Expr::Str(lit.into())),
                            Box::new(Expr::Str("+".into())),
                        )
                    } else {
                        Expr::Str(lit.into())
                    };
                    return self.st(StmtKind::SAssign {
                        var: v.into(),
                        expr,
                    });
                }
                let var = self.var();
                let expr = self.expr();
                self.st(StmtKind::Assign { var, expr })
            }
            2 => self.fail_stmt(),
            3 => {
                let name = self.rng.pick(&self.callable_subs).clone();
                let a = if self.avoid.resume_next_mode_with_call_args && self.f.on_error_resume_next
                {
                    self.pure_expr(1)
                } else {
                    self.expr()
                };
                // by-value arguments only: literals or parenthesised expressions
                let mut arg = match a {
                    Expr::Int(n) => Expr::Int(n),
                    other => Expr::Paren(Box::new(other)),
                };
                if self.f.recursion && self.rng.chance(1, 8) {
                    // deep recursion (the recursive procedures count their parameter down)
                    arg = Expr::Int(self.rng.range(15, 22) as i32);
                }
                self.st(StmtKind::CallSub {
                    name,
                    args: vec![arg],
                })
            }
            4 => self.gosub_stmt(),
            5 => self.st(StmtKind::Return(None)),
            6 => self.st(StmtKind::Resume(ResumeKind::Next)),
            _ => {
                // console INPUT of one integer; the script gets a matching line
                let v = self.var();
                let n = self.rng.range(-9, 99);
                let eol = *self.rng.pick(&["\n", "\r\n", "\r"]);
                self.stdin.extend_from_slice(format!("{}{}", n, eol).as_bytes());
                self.st(StmtKind::InputCon { vars: vec![v] })
            }
        }
    }

    fn gosub_stmt(&mut self) -> Stmt {
        self.n_gosub += 1;
        let label = format!("SB{}", self.n_gosub);
        // body: a few statements, RETURN at the end (sometimes in the middle of an IF)
        let saved = (self.in_gosub_body, self.in_for_depth, self.in_for_step_depth, self.in_select_depth, self.in_loop_depth);
        self.in_gosub_body = true;
        self.in_for_depth = 0;
        self.in_for_step_depth = 0;
        self.in_select_depth = 0;
        self.in_loop_depth = 0;
        let n = 1 + self.rng.below(3);
        let mut body = vec![self.st(StmtKind::Label(label.clone()))];
        for _ in 0..n {
            let s = if self.rng.chance(1, 4) && self.budget > 4 {
                self.block(2)
            } else {
                self.simple_no_gosub()
            };
            body.push(s);
        }
        // RETURN from inside a FOR body of the routine
        if self.f.for_plain && self.rng.chance(1, 4) {
            let id = self.id();
            let var = format!("W{}%", id);
            let t = self.trace();
            let ret = self.st(StmtKind::Return(None));
            let guard = Stmt {
                id: self.id(),
                kind: StmtKind::IfLine {
                    cond: Expr::Cmp(
                        CmpOp::Eq,
                        Box::new(Expr::Var(var.clone())),
                        Box::new(Expr::Int(2)),
                    ),
                    then_s: Box::new(ret),
                    else_s: None,
                },
            };
            body.push(Stmt {
                id,
                kind: StmtKind::For {
                    var,
                    from: Expr::Int(1),
                    to: Expr::Int(3),
                    step: None,
                    body: vec![t, guard],
                },
            });
        }
        // nested GOSUB (acyclic: a new body)
        if self.rng.chance(1, 4) && self.n_gosub < 4 {
            self.in_gosub_body = false;
            let inner = self.gosub_stmt();
            self.in_gosub_body = true;
            body.push(inner);
            body.push(self.trace());
        }
        if self.in_proc_now && self.rng.chance(1, 5) {
            // the subprogram ends while this GOSUB is pending
            body.push(self.st(StmtKind::ExitProc));
        } else if self.f.return_label && self.rng.chance(1, 2) {
            // RETURN label: the label is placed at the end of the enclosing top-level list
            let l = format!("RT{}", self.n_gosub);
            self.pending_return_labels.push(l.clone());
            body.push(self.st(StmtKind::Return(Some(l))));
        } else {
            body.push(self.st(StmtKind::Return(None)));
        }
        (self.in_gosub_body, self.in_for_depth, self.in_for_step_depth, self.in_select_depth, self.in_loop_depth) = saved;
        self.gosub_bodies.push(body);
        self.st(StmtKind::Gosub(label))
    }

    fn simple_no_gosub(&mut self) -> Stmt {
        let saved = self.f.gosub;
        self.f.gosub = false;
        let s = self.simple();
        self.f.gosub = saved;
        s
    }

    fn body(&mut self, depth: u32) -> Vec<Stmt> {
        if self.rng.chance(1, 8) {
            // empty block
            return vec![];
        }
        let n = 1 + self.rng.below(3);
        let mut v = vec![];
        for _ in 0..n {
            v.push(self.stmt(depth));
        }
        // EXIT SUB / EXIT FUNCTION from inside a block
        if self.in_proc_now && !self.in_gosub_body && self.rng.chance(1, 10) {
            let ex = self.st(StmtKind::ExitProc);
            let guard = Stmt {
                id: self.id(),
                kind: StmtKind::IfLine {
                    cond: self.cond(),
                    then_s: Box::new(ex),
                    else_s: None,
                },
            };
            let at = self.rng.below(v.len() + 1);
            v.insert(at, guard);
        }
        // a label inside the block and a GOTO to it from further up in the same block
        // ("continue"); the GOTO may sit in a nested block
        if self.in_loop_depth > 0 && self.f.goto_fwd && self.rng.chance(1, 8) && !v.is_empty() {
            self.n_labels += 1;
            let label = format!("LC{}", self.n_labels);
            let goto = Stmt {
                id: self.id(),
                kind: StmtKind::Goto(label.clone()),
            };
            let guard = Stmt {
                id: self.id(),
                kind: StmtKind::IfLine {
                    cond: self.cond(),
                    then_s: Box::new(goto),
                    else_s: None,
                },
            };
            let at = self.rng.below(v.len());
            let placed = self.rng.chance(1, 2)
                && insert_in_block(&mut v[at], &guard, self.rng, false, false);
            if !placed {
                v.insert(at, guard);
            }
            let lab = self.st(StmtKind::Label(label));
            v.push(lab);
        }
        // bias: a failing or faultable statement as the LAST statement of the block
        if self.f.fails && self.rng.chance(1, 3) {
            v.push(self.fail_stmt());
        } else if self.rng.chance(1, 3) {
            v.push(self.trace());
        }
        v
    }

    fn stmt(&mut self, depth: u32) -> Stmt {
        self.budget -= 1;
        if depth < 3 && self.budget > 3 && self.rng.chance(1, 3) {
            self.block(depth)
        } else {
            self.simple()
        }
    }

    fn block(&mut self, depth: u32) -> Stmt {
        let blocks_allowed_here =
            !(self.in_for_step_depth > 0 && (self.avoid.block_in_for_step || !self.f.block_in_for_step));
        let w = [
            if self.f.for_plain && blocks_allowed_here { 10u32 } else { 0 },
            if self.f.for_step && blocks_allowed_here { 10 } else { 0 },
            if self.f.while_loop && blocks_allowed_here { 8 } else { 0 },
            if self.f.do_loop && blocks_allowed_here { 8 } else { 0 },
            if self.f.if_block && blocks_allowed_here { 12 } else { 0 },
            if self.f.if_line && blocks_allowed_here { 5 } else { 0 },
            if self.f.select && blocks_allowed_here { 8 } else { 0 },
        ];
        if w.iter().sum::<u32>() == 0 {
            return self.simple();
        }
        match self.rng.weighted(&w) {
            0 | 1 => {
                let with_step = self.rng.weighted(&[w[0], w[1]]) == 1;
                let id = self.id();
                let var = format!("W{}%", id);
                let (from, to, step) = if with_step {
                    match self.rng.below(6) {
                        4 => {
                            // the result of the step expression equals its right operand
                            let v = self.rng.pick(&GLOBALS).to_string();
                            let e = Expr::Add(
                                Box::new(Expr::Mul(Box::new(Expr::Var(v)), Box::new(Expr::Int(0)))),
                                Box::new(Expr::Int(2)),
                            );
                            (Expr::Int(0), Expr::Int(3), Some(e))
                        }
                        5 => {
                            let v = self.rng.pick(&GLOBALS).to_string();
                            let e = Expr::Mul(
                                Box::new(Expr::Int(-1)),
                                Box::new(Expr::Paren(Box::new(Expr::Add(
                                    Box::new(Expr::Mul(Box::new(Expr::Var(v)), Box::new(Expr::Int(0)))),
                                    Box::new(Expr::Int(1)),
                                )))),
                            );
                            (Expr::Int(2), Expr::Int(0), Some(e))
                        }
                        0 => (Expr::Int(1), Expr::Int(5), Some(Expr::Int(2))),
                        1 => (Expr::Int(3), Expr::Int(1), Some(Expr::Int(-1))),
                        2 => (Expr::Int(6), Expr::Int(2), Some(Expr::Int(-2))),
                        _ => {
                            // computed step; sometimes through a FUNCTION (whose own loops
                            // must not disturb the bounds of this one)
                            let e = if self.f.functions
                                && !self.callable_fns.is_empty()
                                && self.rng.chance(1, 2)
                            {
                                let name = self.rng.pick(&self.callable_fns).clone();
                                Expr::Add(
                                    Box::new(Expr::Int(2)),
                                    Box::new(Expr::Mul(
                                        Box::new(Expr::Call(name, vec![Expr::Int(1)])),
                                        Box::new(Expr::Int(0)),
                                    )),
                                )
                            } else {
                                Expr::Add(Box::new(Expr::Int(1)), Box::new(Expr::Int(1)))
                            };
                            (Expr::Int(0), Expr::Int(3), Some(e))
                        }
                    }
                } else {
                    let hi = self.rng.range(0, 3) as i32;
                    let to = if self.rng.chance(1, 4) && self.f.functions && !self.callable_fns.is_empty() {
                        let name = self.rng.pick(&self.callable_fns).clone();
                        // function result is data dependent; bound it: hi + 0 * F(x)
                        Expr::Add(
                            Box::new(Expr::Int(hi)),
                            Box::new(Expr::Mul(
                                Box::new(Expr::Call(name, vec![Expr::Int(1)])),
                                Box::new(Expr::Int(0)),
                            )),
                        )
                    } else {
                        Expr::Int(hi)
                    };
                    (Expr::Int(1), to, None)
                };
                self.in_for_depth += 1;
                self.in_loop_depth += 1;
                if with_step {
                    self.in_for_step_depth += 1;
                }
                let body = self.body(depth + 1);
                if with_step {
                    self.in_for_step_depth -= 1;
                }
                self.in_for_depth -= 1;
                self.in_loop_depth -= 1;
                Stmt {
                    id,
                    kind: StmtKind::For {
                        var,
                        from,
                        to,
                        step,
                        body,
                    },
                }
            }
            2 | 3 => {
                let is_while = self.rng.weighted(&[w[2], w[3]]) == 0;
                let id = self.id();
                let var = format!("W{}%", id);
                let n = self.rng.range(1, 3) as i32;
                // counter set before the loop is part of the block: emitted as a
                // preceding assignment by the caller through `pre`
                self.in_loop_depth += 1;
                let mut body = vec![self.st(StmtKind::Assign {
                    var: var.clone(),
                    expr: Expr::Add(Box::new(Expr::Var(var.clone())), Box::new(Expr::Int(1))),
                })];
                body.extend(self.body(depth + 1));
                self.in_loop_depth -= 1;
                if is_while {
                    Stmt {
                        id,
                        kind: StmtKind::While {
                            cond: Expr::Cmp(
                                CmpOp::Lt,
                                Box::new(Expr::Var(var)),
                                Box::new(Expr::Int(n)),
                            ),
                            body,
                        },
                    }
                } else {
                    let top = self.rng.chance(1, 2);
                    let until = self.rng.chance(1, 2);
                    let cond = if until {
                        Expr::Cmp(CmpOp::Ge, Box::new(Expr::Var(var)), Box::new(Expr::Int(n)))
                    } else {
                        Expr::Cmp(CmpOp::Lt, Box::new(Expr::Var(var)), Box::new(Expr::Int(n)))
                    };
                    Stmt {
                        id,
                        kind: StmtKind::Do {
                            top,
                            until,
                            cond,
                            body,
                        },
                    }
                }
            }
            4 => {
                let id = self.id();
                let cond = self.cond();
                let then_b = self.body(depth + 1);
                let mut elseifs = vec![];
                if self.rng.chance(1, 3) {
                    let c = self.cond();
                    let b = self.body(depth + 1);
                    elseifs.push((c, b));
                }
                let else_b = if self.rng.chance(1, 2) {
                    Some(self.body(depth + 1))
                } else {
                    None
                };
                Stmt {
                    id,
                    kind: StmtKind::If {
                        cond,
                        then_b,
                        elseifs,
                        else_b,
                    },
                }
            }
            5 => {
                let id = self.id();
                let cond = self.cond();
                let then_s = Box::new(self.simple_no_gosub());
                let else_s = if self.rng.chance(1, 2) {
                    Some(Box::new(self.simple_no_gosub()))
                } else {
                    None
                };
                Stmt {
                    id,
                    kind: StmtKind::IfLine {
                        cond,
                        then_s,
                        else_s,
                    },
                }
            }
            _ => {
                let id = self.id();
                let expr = self.expr();
                self.in_select_depth += 1;
                let ncases = 1 + self.rng.below(3);
                let mut cases = vec![];
                for _ in 0..ncases {
                    let spec = match self.rng.below(4) {
                        0 => vec![CaseSpec::Simple(Expr::Int(self.small()))],
                        1 => vec![CaseSpec::Is(
                            *self.rng.pick(&[CmpOp::Lt, CmpOp::Ge, CmpOp::Ne]),
                            Expr::Int(self.small()),
                        )],
                        2 => {
                            let a = self.small();
                            vec![CaseSpec::Range(Expr::Int(a), Expr::Int(a + 3))]
                        }
                        _ => vec![
                            CaseSpec::Simple(Expr::Int(self.small())),
                            CaseSpec::Simple(Expr::Int(self.small())),
                        ],
                    };
                    let b = self.body(depth + 1);
                    cases.push((spec, b));
                }
                let else_b = if self.rng.chance(1, 2) {
                    Some(self.body(depth + 1))
                } else {
                    None
                };
                self.in_select_depth -= 1;
                Stmt {
                    id,
                    kind: StmtKind::Select {
                        expr,
                        cases,
                        else_b,
                    },
                }
            }
        }
    }

    /// Inserts forward GOTOs (possibly out of nested blocks) and their labels into a
    /// top-level list.
    fn add_gotos(&mut self, list: &mut Vec<Stmt>) {
        if !(self.f.goto_fwd || self.f.goto_out_of_loop) || list.len() < 2 {
            return;
        }
        let n = 1 + self.rng.below(2);
        for _ in 0..n {
            // label position: after some statement (index >= 1)
            let lp = 1 + self.rng.below(list.len());
            self.n_labels += 1;
            let label = format!("LB{}", self.n_labels);
            // source: a statement before the label; either top-level (plain forward GOTO
            // guarded by an IF) or inside a block (out of loop)
            let src_idx = self.rng.below(lp);
            let goto = Stmt {
                id: self.id(),
                kind: StmtKind::Goto(label.clone()),
            };
            let guard_id = self.id();
            let guarded = Stmt {
                id: guard_id,
                kind: StmtKind::IfLine {
                    cond: self.cond(),
                    then_s: Box::new(goto),
                    else_s: None,
                },
            };
            let mut placed = false;
            if self.f.goto_out_of_loop {
                let avoid_for = self.avoid.goto_out_of_for;
                let avoid_sel = self.avoid.goto_out_of_select;
                placed = insert_in_block(&mut list[src_idx], &guarded, self.rng, avoid_for, avoid_sel);
            }
            if !placed {
                if !self.f.goto_fwd {
                    continue;
                }
                list.insert(src_idx, guarded);
                let lab = Stmt {
                    id: self.id(),
                    kind: StmtKind::Label(label),
                };
                list.insert(lp + 1, lab);
            } else {
                let lab = Stmt {
                    id: self.id(),
                    kind: StmtKind::Label(label),
                };
                list.insert(lp, lab);
            }
        }
    }

    fn add_back_goto(&mut self, list: &mut Vec<Stmt>) {
        if !self.f.goto_back || list.is_empty() {
            return;
        }
        self.n_labels += 1;
        let label = format!("LK{}", self.n_labels);
        let id = self.id();
        let var = format!("W{}%", id);
        let at = self.rng.below(list.len());
        let span = 1 + self.rng.below((list.len() - at).min(3));
        let lab = Stmt {
            id,
            kind: StmtKind::Label(label.clone()),
        };
        let inc = self.st(StmtKind::Assign {
            var: var.clone(),
            expr: Expr::Add(Box::new(Expr::Var(var.clone())), Box::new(Expr::Int(1))),
        });
        let goto = Stmt {
            id: self.id(),
            kind: StmtKind::Goto(label),
        };
        let guard = Stmt {
            id: self.id(),
            kind: StmtKind::IfLine {
                cond: Expr::Cmp(CmpOp::Lt, Box::new(Expr::Var(var)), Box::new(Expr::Int(2))),
                then_s: Box::new(goto),
                else_s: None,
            },
        };
        list.insert(at + span, guard);
        list.insert(at, inc);
        list.insert(at, lab);
    }

    fn top_list(&mut self, n: usize) -> Vec<Stmt> {
        let mut list = vec![];
        for _ in 0..n {
            let s = self.stmt(0);
            list.push(s);
        }
        self.add_gotos(&mut list);
        self.add_back_goto(&mut list);
        let labels = std::mem::take(&mut self.pending_return_labels);
        for l in labels {
            let s = self.st(StmtKind::Label(l));
            list.push(s);
            let t = self.trace();
            list.push(t);
            // a plain RETURN after the target of a RETURN label: it must return from the
            // enclosing GOSUB if one is pending, and raise error 3 otherwise
            if !self.in_proc && self.rng.chance(1, 2) {
                let r = self.st(StmtKind::Return(None));
                list.push(r);
            }
        }
        list
    }

    fn gen_proc(&mut self, name: &str, is_function: bool) -> Proc {
        self.in_proc = true;
        self.in_proc_now = true;
        let saved_bodies = std::mem::take(&mut self.gosub_bodies);
        let saved_budget = self.budget;
        self.budget = 8;
        let n = 1 + self.rng.below(4);
        let mut body = self.top_list(n);
        if self.f.recursion && self.rng.chance(1, 2) {
            // bounded recursion on the parameter
            let call = if is_function {
                let id = self.id();
                Stmt {
                    id,
                    kind: StmtKind::Assign {
                        var: LOCALS[0].to_string(),
                        expr: Expr::Call(
                            name.to_string(),
                            vec![Expr::Paren(Box::new(Expr::Sub(
                                Box::new(Expr::Var("P1%".into())),
                                Box::new(Expr::Int(1)),
                            )))],
                        ),
                    },
                }
            } else {
                let id = self.id();
                Stmt {
                    id,
                    kind: StmtKind::CallSub {
                        name: name.to_string(),
                        args: vec![Expr::Paren(Box::new(Expr::Sub(
                            Box::new(Expr::Var("P1%".into())),
                            Box::new(Expr::Int(1)),
                        )))],
                    },
                }
            };
            let guard = Stmt {
                id: self.id(),
                kind: StmtKind::If {
                    cond: Expr::Cmp(
                        CmpOp::Gt,
                        Box::new(Expr::Var("P1%".into())),
                        Box::new(Expr::Int(0)),
                    ),
                    then_b: vec![call],
                    elseifs: vec![],
                    else_b: None,
                },
            };
            let at = self.rng.below(body.len() + 1);
            body.insert(at, guard);
        }
        if self.f.handler_in_sub && self.f.handler && self.rng.chance(1, 2) {
            let s = self.st(StmtKind::OnErrorGoto("H1".into()));
            body.insert(0, s);
        }
        if self.f.on_error_goto_0 && self.rng.chance(1, 4) && !body.is_empty() {
            // the handler is switched off in the middle of the subprogram
            let at = 1 + self.rng.below(body.len());
            let s = self.st(StmtKind::OnErrorGoto0);
            body.insert(at, s);
        }
        if is_function {
            let e = self.pure_expr(1);
            let s = self.st(StmtKind::Assign {
                var: name.to_string(),
                expr: e,
            });
            let at = self.rng.below(body.len() + 1);
            body.insert(at, s);
        }
        // GOSUB bodies local to the procedure go after an EXIT
        let bodies = std::mem::replace(&mut self.gosub_bodies, saved_bodies);
        if !bodies.is_empty() {
            body.push(self.st(StmtKind::ExitProc));
            for b in bodies {
                body.extend(b);
            }
        }
        self.budget = saved_budget;
        self.in_proc = false;
        self.in_proc_now = false;
        Proc {
            name: name.to_string(),
            is_function,
            params: vec!["P1%".to_string()],
            body,
            is_static: false,
        }
    }

    /// A STATIC SUB whose body does not read variables: what STATIC does to variables is
    /// another property's business, the call mechanics (call sites, returns, errors) are not.
    fn gen_static_sub(&mut self, name: &str) -> Proc {
        self.in_proc = true;
        self.in_proc_now = true;
        let mut body = vec![];
        let n = 1 + self.rng.below(3);
        for _ in 0..n {
            let s = match self.rng.below(4) {
                0 if self.f.fails => self.fail_stmt(),
                1 if !self.callable_subs.is_empty() => {
                    let callee = self.rng.pick(&self.callable_subs).clone();
                    let a = self.small();
                    self.st(StmtKind::CallSub {
                        name: callee,
                        args: vec![Expr::Int(a)],
                    })
                }
                _ => {
                    self.trace_no += 1;
                    let t = format!("T{}", self.trace_no);
                    self.st(StmtKind::Print {
                        dev: Dev::Screen,
                        items: vec![PItem::E(Expr::Str(t))],
                        using: None,
                    })
                }
            };
            body.push(s);
        }
        self.in_proc = false;
        self.in_proc_now = false;
        Proc {
            name: name.to_string(),
            is_function: false,
            params: vec!["P1%".to_string()],
            body,
            is_static: true,
        }
    }
}

/// Tries to insert `stmt` into a nested block of `target` (so that the GOTO leaves it).
fn insert_in_block(
    target: &mut Stmt,
    stmt: &Stmt,
    rng: &mut Rng,
    avoid_for: bool,
    avoid_select: bool,
) -> bool {
    let is_for = matches!(target.kind, StmtKind::For { .. });
    let is_select = matches!(target.kind, StmtKind::Select { .. });
    if (is_for && avoid_for) || (is_select && avoid_select) {
        return false;
    }
    let mut lists = children_mut(&mut target.kind);
    if lists.is_empty() {
        return false;
    }
    let k = rng.below(lists.len());
    let list = &mut lists[k];
    // go deeper sometimes
    if !list.is_empty() && rng.chance(1, 2) {
        let j = rng.below(list.len());
        if insert_in_block(&mut list[j], stmt, rng, avoid_for, avoid_select) {
            return true;
        }
    }
    let at = rng.below(list.len() + 1);
    list.insert(at, stmt.clone());
    true
}


// ----------------------------------------------------------------------
// Shaped families: combinations the free generator reaches too rarely. A handler's way
// out (RESUME, RESUME NEXT, RESUME label) is combined with loops whose bounds and step
// live in register frames, with calls several levels deep and with a pending GOSUB.
// Everything else (which loop, which depth, which failing statement) is drawn.
// ----------------------------------------------------------------------

struct Sh<'r> {
    rng: &'r mut Rng,
    next: StmtId,
    t: u32,
}

impl<'r> Sh<'r> {
    fn st(&mut self, kind: StmtKind) -> Stmt {
        self.next += 1;
        Stmt {
            id: self.next,
            kind,
        }
    }
    fn trace(&mut self, vars: &[&str]) -> Stmt {
        self.t += 1;
        let tail = if self.rng.chance(1, 12) {
            *self.rng.pick(&["\u{1F600}", "\u{e9}", "\u{10348}\u{10348}"])
        } else {
            ""
        };
        let mut items = vec![PItem::E(Expr::Str(format!("T{}{}", self.t, tail)))];
        for v in vars {
            items.push(PItem::Semi);
            items.push(PItem::E(Expr::Var(v.to_string())));
        }
        self.st(StmtKind::Print {
            dev: Dev::Screen,
            items,
            using: None,
        })
    }
    fn fail(&mut self) -> Stmt {
        let k = *self.rng.pick(&[
            FailKind::DivZero,
            FailKind::Subscript,
            FailKind::Overflow,
            FailKind::IllegalCall,
            FailKind::DivZeroMid,
            FailKind::DivZeroNestedArgs,
        ]);
        self.st(StmtKind::Fail(k))
    }
    /// FOR with one of the header forms; the counter runs over 2 or 3 values
    fn for_loop(&mut self, var: &str, body: Vec<Stmt>) -> Stmt {
        let (from, to, step) = match self.rng.below(5) {
            0 => (Expr::Int(1), Expr::Int(3), None),
            1 => (Expr::Int(1), Expr::Int(2), None),
            2 => (Expr::Int(1), Expr::Int(21), Some(Expr::Int(10))),
            3 => (Expr::Int(3), Expr::Int(1), Some(Expr::Int(-1))),
            _ => (
                Expr::Int(0),
                Expr::Int(4),
                Some(Expr::Add(
                    Box::new(Expr::Mul(Box::new(Expr::Var("G1%".into())), Box::new(Expr::Int(0)))),
                    Box::new(Expr::Int(2)),
                )),
            ),
        };
        self.st(StmtKind::For {
            var: var.to_string(),
            from,
            to,
            step,
            body,
        })
    }
    /// S1 -> S2 -> ... the deepest fails; returns the procs and the call statement
    fn call_chain(&mut self, depth: u32) -> (Vec<Proc>, Stmt) {
        let mut procs = vec![];
        let use_fn = self.rng.chance(1, 3);
        for i in (1..=depth).rev() {
            let last = i == depth;
            let mut body = vec![self.trace(&["P1%"])];
            if last {
                let f = self.fail();
                body.push(f);
            } else {
                let callee_is_fn = use_fn && i + 1 == depth;
                let call = if callee_is_fn {
                    self.st(StmtKind::Assign {
                        var: "L1%".into(),
                        expr: Expr::Call("F1%".into(), vec![Expr::Int(1)]),
                    })
                } else {
                    self.st(StmtKind::CallSub {
                        name: format!("S{}", i + 1),
                        args: vec![Expr::Int(i as i32)],
                    })
                };
                if self.rng.chance(1, 3) {
                    // the callee holds a loop of its own around the call
                    let l = self.for_loop("L2%", vec![call]);
                    body.push(l);
                } else {
                    body.push(call);
                }
            }
            body.push(self.trace(&[]));
            let is_function = use_fn && last && depth > 1;
            procs.push(Proc {
                name: if is_function {
                    "F1%".into()
                } else {
                    format!("S{}", i)
                },
                is_function,
                params: vec!["P1%".into()],
                body,
                is_static: false,
            });
        }
        let call = self.st(StmtKind::CallSub {
            name: "S1".into(),
            args: vec![Expr::Int(0)],
        });
        (procs, call)
    }
    fn handler(&mut self, out: &mut Vec<Stmt>, kind: ResumeKind, retries: Option<i32>) {
        out.push(self.st(StmtKind::Label("H1".into())));
        out.push(self.st(StmtKind::Print {
            dev: Dev::Screen,
            items: vec![
                PItem::E(Expr::Str("H".into())),
                PItem::Semi,
                PItem::E(Expr::Err),
                PItem::Semi,
                PItem::E(Expr::Var("G3%".into())),
            ],
            using: None,
        }));
        out.push(self.st(StmtKind::Assign {
            var: "G3%".into(),
            expr: Expr::Add(Box::new(Expr::Var("G3%".into())), Box::new(Expr::Int(1))),
        }));
        if let Some(n) = retries {
            out.push(self.st(StmtKind::Assign {
                var: "HC%".into(),
                expr: Expr::Add(Box::new(Expr::Var("HC%".into())), Box::new(Expr::Int(1))),
            }));
            let resume = self.st(StmtKind::Resume(ResumeKind::Bare));
            out.push(self.st(StmtKind::IfLine {
                cond: Expr::Cmp(
                    CmpOp::Le,
                    Box::new(Expr::Mul(Box::new(Expr::Var("HC%".into())), Box::new(Expr::Int(1)))),
                    Box::new(Expr::Int(n)),
                ),
                then_s: Box::new(resume),
                else_s: None,
            }));
        }
        if self.rng.chance(1, 5) {
            // the handler resumes from inside a GOSUB routine of its own: that GOSUB is
            // abandoned, a later stray RETURN of the program finds none pending
            out.push(self.st(StmtKind::Gosub("HG1".into())));
            let t = self.trace(&[]);
            out.push(t);
            out.push(self.st(StmtKind::Label("HG1".into())));
        }
        if self.rng.chance(1, 3) {
            // the handler resumes from inside a loop of its own: the interrupted code
            // must not inherit that loop's frame
            let resume = self.st(StmtKind::Resume(kind.clone()));
            let guarded = self.st(StmtKind::IfLine {
                cond: Expr::Cmp(
                    CmpOp::Eq,
                    Box::new(Expr::Var("HK%".into())),
                    Box::new(Expr::Int(2)),
                ),
                then_s: Box::new(resume),
                else_s: None,
            });
            let l = self.for_loop("HK%", vec![guarded]);
            out.push(l);
        }
        out.push(self.st(StmtKind::Resume(kind)));
    }
}

impl<'r> Sh<'r> {
    /// A LONG function whose result does not fit the INTEGER it is assigned to: the
    /// failing statement is the caller's, raised when the callee has already returned,
    /// at the very position of the call (which is also the call site of the activation
    /// that is on top while the error is reported). The recursion makes the same
    /// source position appear several times in the list of call sites.
    fn return_cast_shape(&mut self) -> Scenario {
        let depth = 1 + self.rng.below(3) as i32;
        let handled = self.rng.chance(1, 2);
        let mut main = vec![];
        if handled {
            main.push(self.st(StmtKind::OnErrorGoto("H1".into())));
        }
        main.push(self.trace(&[]));
        main.push(self.st(StmtKind::Assign {
            var: "G1%".into(),
            expr: Expr::Call("FL&".into(), vec![Expr::Int(depth)]),
        }));
        main.push(self.trace(&["G1%", "G3%"]));
        main.push(self.st(StmtKind::End));
        if handled {
            self.handler(&mut main, ResumeKind::Next, None);
        }
        let rec = self.st(StmtKind::Assign {
            var: "L1%".into(),
            expr: Expr::Call(
                "FL&".into(),
                vec![Expr::Paren(Box::new(Expr::Sub(
                    Box::new(Expr::Var("P1%".into())),
                    Box::new(Expr::Int(1)),
                )))],
            ),
        });
        let big = *self.rng.pick(&[70000, 40000, 32768, 5]);
        let body = vec![
            self.trace(&["P1%"]),
            self.st(StmtKind::IfLine {
                cond: Expr::Cmp(
                    CmpOp::Gt,
                    Box::new(Expr::Var("P1%".into())),
                    Box::new(Expr::Int(0)),
                ),
                then_s: Box::new(rec),
                else_s: None,
            }),
            self.st(StmtKind::Assign {
                var: "FL&".into(),
                expr: Expr::Int(big),
            }),
            self.trace(&["L1%"]),
        ];
        Scenario {
            main,
            procs: vec![Proc {
                name: "FL&".into(),
                is_function: true,
                params: vec!["P1%".into()],
                body,
                is_static: false,
            }],
            stdin: vec![],
        }
    }
}

impl<'r> Sh<'r> {
    /// A FUNCTION that fails, called as the whole condition of a LOOP WHILE / LOOP UNTIL
    /// line, of an ELSEIF line or as a CASE expression: the call site in the error report is
    /// the row of that line, not the row of the block's first line or of the statement
    /// before it. No handler: the first of the constructs ends the program.
    fn call_site_row_shape(&mut self) -> Scenario {
        let mut main = vec![self.trace(&[])];
        let call = |n: i32| Expr::Call("FZ%".into(), vec![Expr::Int(n)]);
        let mut order = vec![0, 1, 2];
        // a seeded shuffle
        for i in (1..order.len()).rev() {
            let j = self.rng.below(i + 1);
            order.swap(i, j);
        }
        // some statements in front, so that rows differ from scenario to scenario
        for _ in 0..self.rng.below(3) {
            let t = self.trace(&["G1%"]);
            main.push(t);
        }
        for k in order {
            match k {
                0 => {
                    let body = vec![self.trace(&[]), self.trace(&["G2%"])];
                    // (FZ% returns 0: LOOP WHILE leaves the loop, LOOP UNTIL never would)
                    main.push(self.st(StmtKind::Do {
                        top: false,
                        until: false,
                        cond: call(1),
                        body,
                    }));
                }
                1 => {
                    let then_b = vec![self.trace(&[])];
                    let b2 = vec![self.trace(&[]), self.trace(&[])];
                    let b3 = vec![self.trace(&[])];
                    main.push(self.st(StmtKind::If {
                        cond: Expr::Cmp(
                            CmpOp::Eq,
                            Box::new(Expr::Var("G1%".into())),
                            Box::new(Expr::Int(99)),
                        ),
                        then_b,
                        elseifs: vec![
                            (
                                Expr::Cmp(
                                    CmpOp::Eq,
                                    Box::new(Expr::Var("G2%".into())),
                                    Box::new(Expr::Int(98)),
                                ),
                                b2,
                            ),
                            (call(2), b3),
                        ],
                        else_b: None,
                    }));
                }
                _ => {
                    let c1 = vec![self.trace(&[]), self.trace(&[])];
                    let c2 = vec![self.trace(&[])];
                    main.push(self.st(StmtKind::Select {
                        expr: Expr::Int(5),
                        cases: vec![
                            (vec![CaseSpec::Simple(Expr::Int(7))], c1),
                            (vec![CaseSpec::Simple(call(3))], c2),
                        ],
                        else_b: None,
                    }));
                }
            }
        }
        main.push(self.trace(&[]));
        main.push(self.st(StmtKind::End));
        // FZ% never assigns its result (0); it fails for one of the arguments only
        let which = 1 + self.rng.below(3) as i32;
        let f = self.fail();
        let body = vec![
            self.trace(&["P1%"]),
            self.st(StmtKind::IfLine {
                cond: Expr::Cmp(
                    CmpOp::Eq,
                    Box::new(Expr::Var("P1%".into())),
                    Box::new(Expr::Int(which)),
                ),
                then_s: Box::new(f),
                else_s: None,
            }),
        ];
        Scenario {
            main,
            procs: vec![Proc {
                name: "FZ%".into(),
                is_function: true,
                params: vec!["P1%".into()],
                body,
                is_static: false,
            }],
            stdin: vec![],
        }
    }
}

impl<'r> Sh<'r> {
    /// The line that fails is the header line of a block: the condition of IF / ELSEIF /
    /// WHILE / DO / LOOP, the expression of a CASE line. "RESUME re-executes that
    /// statement" (the line is evaluated again, after the handler has repaired the
    /// cause), "RESUME NEXT continues with the statement after it" (the first statement
    /// of the line's body; the statement after the loop for a LOOP line). Drawn: which
    /// line, the handler's way out, an enclosing FOR loop, a GOSUB routine, a second
    /// block of another kind afterwards; in a subprogram only ways out that need no repair.
    fn failing_header_shape(&mut self) -> Scenario {
        let mut main: Vec<Stmt> = vec![self.trace(&[])];
        let mode = self.rng.below(5); // 0 RESUME+repair, 1 RESUME NEXT, 2 ON ERROR RESUME NEXT, 3 none, 4 RESUME label
        let in_sub = mode != 0 && self.rng.chance(1, 4);
        let quot = |n: i32| Expr::Quot(Box::new(Expr::Int(n)));
        let cmp = |a: Expr, n: i32| Expr::Cmp(CmpOp::Eq, Box::new(a), Box::new(Expr::Int(n)));
        let mut blocks: Vec<Stmt> = vec![];
        let n_blocks = 1 + self.rng.below(2);
        for _ in 0..n_blocks {
            let truth = self.rng.chance(1, 2);
            // the value of the failing expression once it is repaired: 6
            let want = if truth { 6 } else { 7 };
            let coin = self.rng.chance(1, 2);
            // FOR bounds and the SELECT CASE expression: only with ways out that do not
            // continue "after" the half-executed line
            let kinds = if matches!(mode, 0 | 3 | 4) && !in_sub { 11 } else { 8 };
            let b = match self.rng.below(kinds) {
                8 | 9 => {
                    let body = vec![self.trace(&["W6%"])];
                    let (from, to, step) = match self.rng.below(3) {
                        0 => (quot(1), Expr::Int(2), None),
                        1 => (Expr::Int(1), quot(2), None),
                        _ => (Expr::Int(1), Expr::Int(3), Some(quot(2))),
                    };
                    self.st(StmtKind::For {
                        var: "W6%".into(),
                        from,
                        to,
                        step,
                        body,
                    })
                }
                10 => {
                    let c1 = vec![self.trace(&[])];
                    let c2 = vec![self.trace(&["G1%"])];
                    let ce = vec![self.trace(&[])];
                    self.st(StmtKind::Select {
                        expr: quot(want),
                        cases: vec![
                            (vec![CaseSpec::Simple(Expr::Int(1))], c1),
                            (vec![CaseSpec::Simple(Expr::Int(6))], c2),
                        ],
                        else_b: if coin { Some(ce) } else { None },
                    })
                }
                0 => {
                    let then_b = vec![self.trace(&["G1%"]), self.trace(&[])];
                    let else_b = vec![self.trace(&[])];
                    self.st(StmtKind::If {
                        cond: cmp(quot(6), want),
                        then_b,
                        elseifs: vec![],
                        else_b: if coin { Some(else_b) } else { None },
                    })
                }
                1 => {
                    let then_b = vec![self.trace(&[])];
                    let b2 = vec![self.trace(&["G2%"]), self.trace(&[])];
                    let b3 = vec![self.trace(&[])];
                    let else_b = vec![self.trace(&[])];
                    let first_fails = self.rng.chance(1, 2);
                    let (c2, c3) = if first_fails {
                        (cmp(quot(6), want), cmp(Expr::Var("G1%".into()), 0))
                    } else {
                        (cmp(Expr::Var("G1%".into()), 55), cmp(quot(6), want))
                    };
                    self.st(StmtKind::If {
                        cond: cmp(Expr::Var("G1%".into()), 99),
                        then_b,
                        elseifs: vec![(c2, b2), (c3, b3)],
                        else_b: if coin { Some(else_b) } else { None },
                    })
                }
                2 => {
                    let t = self.trace(&["G1%"]);
                    let e = self.trace(&[]);
                    self.st(StmtKind::IfLine {
                        cond: cmp(quot(6), want),
                        then_s: Box::new(t),
                        else_s: if coin { Some(Box::new(e)) } else { None },
                    })
                }
                3 => {
                    // WHILE: the body runs while W4% < 2 and the failing expression is 6
                    let bump = self.st(StmtKind::Assign {
                        var: "W4%".into(),
                        expr: Expr::Add(Box::new(Expr::Var("W4%".into())), Box::new(Expr::Int(1))),
                    });
                    // (without a handler that repairs the cause, the body does: the line is
                    // evaluated again at the end of every pass)
                    let repair = self.st(StmtKind::Assign {
                        var: "DZ%".into(),
                        expr: Expr::Int(1),
                    });
                    let body = vec![repair, self.trace(&["W4%"]), bump];
                    let reset = self.st(StmtKind::Assign {
                        var: "W4%".into(),
                        expr: Expr::Int(0),
                    });
                    blocks.push(reset);
                    self.st(StmtKind::While {
                        cond: cmp(
                            Expr::Add(Box::new(quot(6)), Box::new(Expr::Var("W4%".into()))),
                            6 + if truth { 0 } else { 1 },
                        ),
                        body,
                    })
                }
                4 | 5 => {
                    let top = self.rng.chance(1, 2);
                    let until = self.rng.chance(1, 2);
                    let bump = self.st(StmtKind::Assign {
                        var: "W5%".into(),
                        expr: Expr::Add(Box::new(Expr::Var("W5%".into())), Box::new(Expr::Int(1))),
                    });
                    let repair = self.st(StmtKind::Assign {
                        var: "DZ%".into(),
                        expr: Expr::Int(1),
                    });
                    let mut body = vec![self.trace(&["W5%"]), bump];
                    if top {
                        body.insert(0, repair);
                    }
                    let reset = self.st(StmtKind::Assign {
                        var: "W5%".into(),
                        expr: Expr::Int(0),
                    });
                    blocks.push(reset);
                    // (6 / DZ%) + W5%: WHILE ... < 8 runs for W5% = 0, 1; UNTIL ... >= 8 likewise
                    let sum = Expr::Add(Box::new(quot(6)), Box::new(Expr::Var("W5%".into())));
                    let cond = if until {
                        Expr::Cmp(CmpOp::Ge, Box::new(sum), Box::new(Expr::Int(8)))
                    } else {
                        Expr::Cmp(CmpOp::Lt, Box::new(sum), Box::new(Expr::Int(8)))
                    };
                    self.st(StmtKind::Do {
                        top,
                        until,
                        cond,
                        body,
                    })
                }
                _ => {
                    let c1 = vec![self.trace(&[])];
                    let c2 = vec![self.trace(&["G1%"]), self.trace(&[])];
                    let c3 = vec![self.trace(&[])];
                    let ce = vec![self.trace(&[])];
                    let spec = match self.rng.below(4) {
                        0 => vec![CaseSpec::Simple(quot(6))],
                        1 => vec![CaseSpec::Is(CmpOp::Ge, quot(6))],
                        2 => vec![CaseSpec::Range(quot(6), Expr::Int(9))],
                        _ => vec![
                            CaseSpec::Simple(Expr::Int(2)),
                            CaseSpec::Simple(quot(6)),
                            CaseSpec::Simple(Expr::Int(8)),
                        ],
                    };
                    let first = self.rng.chance(1, 3);
                    let cases = if first {
                        vec![(spec, c2), (vec![CaseSpec::Simple(Expr::Int(want))], c3)]
                    } else {
                        vec![
                            (vec![CaseSpec::Simple(Expr::Int(1))], c1),
                            (spec, c2),
                            (vec![CaseSpec::Simple(Expr::Int(want))], c3),
                        ]
                    };
                    self.st(StmtKind::Select {
                        expr: Expr::Int(want),
                        cases,
                        else_b: if coin { Some(ce) } else { None },
                    })
                }
            };
            blocks.push(b);
            blocks.push(self.trace(&["G3%"]));
            {
                // the cause comes back for the next block
                blocks.push(self.st(StmtKind::Assign {
                    var: "DZ%".into(),
                    expr: Expr::Int(0),
                }));
            }
        }
        if mode == 4 {
            blocks.push(self.st(StmtKind::Label("RL1".into())));
            blocks.push(self.trace(&["G3%"]));
        }
        // optionally inside a FOR loop whose bounds must survive the recoveries
        if self.rng.chance(1, 3) && mode != 4 {
            blocks = vec![self.for_loop("W1%", blocks)];
        }
        let arm = match mode {
            0 | 1 | 4 => Some(self.st(StmtKind::OnErrorGoto("H1".into()))),
            2 => Some(self.st(StmtKind::OnErrorResumeNext)),
            _ => None,
        };
        let mut procs = vec![];
        let mut gosub_body = vec![];
        if let Some(a) = arm {
            main.push(a);
        }
        if in_sub {
            let mut body = vec![self.trace(&["P1%"])];
            body.extend(blocks);
            body.push(self.trace(&[]));
            procs.push(Proc {
                name: "S1".into(),
                is_function: false,
                params: vec!["P1%".into()],
                body,
                is_static: false,
            });
            main.push(self.st(StmtKind::CallSub {
                name: "S1".into(),
                args: vec![Expr::Int(3)],
            }));
        } else if self.rng.chance(1, 4) && mode != 4 {
            main.push(self.st(StmtKind::Gosub("GB1".into())));
            gosub_body.push(self.st(StmtKind::Label("GB1".into())));
            gosub_body.extend(blocks);
            gosub_body.push(self.st(StmtKind::Return(None)));
        } else {
            main.extend(blocks);
        }
        main.push(self.trace(&["G3%"]));
        main.push(self.st(StmtKind::End));
        main.extend(gosub_body);
        if matches!(mode, 0 | 1 | 4) {
            main.push(self.st(StmtKind::Label("H1".into())));
            main.push(self.st(StmtKind::Print {
                dev: Dev::Screen,
                items: vec![
                    PItem::E(Expr::Str("H".into())),
                    PItem::Semi,
                    PItem::E(Expr::Err),
                    PItem::Semi,
                    PItem::E(Expr::Var("G3%".into())),
                ],
                using: None,
            }));
            main.push(self.st(StmtKind::Assign {
                var: "G3%".into(),
                expr: Expr::Add(Box::new(Expr::Var("G3%".into())), Box::new(Expr::Int(1))),
            }));
            match mode {
                0 => {
                    main.push(self.st(StmtKind::Assign {
                        var: "DZ%".into(),
                        expr: Expr::Int(1),
                    }));
                    main.push(self.st(StmtKind::Resume(ResumeKind::Bare)));
                }
                1 => main.push(self.st(StmtKind::Resume(ResumeKind::Next))),
                _ => main.push(self.st(StmtKind::Resume(ResumeKind::Label("RL1".into())))),
            }
        }
        Scenario {
            main,
            procs,
            stdin: vec![],
        }
    }
}

impl<'r> Sh<'r> {
    /// Calls nested far deeper than any other scenario goes (100-220 levels): the report of
    /// the error raised at the bottom lists every one of them; trapped, the program goes on
    /// and a later error in the main module lists none.
    fn deep_recursion_shape(&mut self) -> Scenario {
        // (one time in four beyond a thousand levels: an implementation that limits the
        // depth must unwind what it had already set up for the call it refuses)
        let depth = if self.rng.chance(1, 4) {
            self.rng.range(1030, 1100) as i32
        } else {
            self.rng.range(100, 220) as i32
        };
        let mode = self.rng.below(3); // 0 none, 1 ON ERROR RESUME NEXT, 2 handler RESUME NEXT
        let mut main = vec![self.trace(&[])];
        match mode {
            1 => main.push(self.st(StmtKind::OnErrorResumeNext)),
            2 => main.push(self.st(StmtKind::OnErrorGoto("H1".into()))),
            _ => {}
        }
        main.push(self.st(StmtKind::CallSub {
            name: "RD".into(),
            args: vec![Expr::Int(depth)],
        }));
        main.push(self.trace(&["G3%"]));
        if mode != 0 {
            // after everything has returned: an error that ends the program
            main.push(self.st(StmtKind::OnErrorGoto0));
            let f = self.fail();
            main.push(f);
        }
        main.push(self.st(StmtKind::End));
        if mode == 2 {
            self.handler(&mut main, ResumeKind::Next, None);
        }
        let rec = self.st(StmtKind::CallSub {
            name: "RD".into(),
            args: vec![Expr::Paren(Box::new(Expr::Sub(
                Box::new(Expr::Var("P1%".into())),
                Box::new(Expr::Int(1)),
            )))],
        });
        let f = self.fail();
        let t = self.trace(&["P1%"]);
        let body = vec![
            self.st(StmtKind::IfLine {
                cond: Expr::Cmp(
                    CmpOp::Gt,
                    Box::new(Expr::Var("P1%".into())),
                    Box::new(Expr::Int(0)),
                ),
                then_s: Box::new(rec),
                else_s: Some(Box::new(f)),
            }),
            self.st(StmtKind::IfLine {
                cond: Expr::Cmp(
                    CmpOp::Lt,
                    Box::new(Expr::Var("P1%".into())),
                    Box::new(Expr::Int(2)),
                ),
                then_s: Box::new(t),
                else_s: None,
            }),
        ];
        Scenario {
            main,
            procs: vec![Proc {
                name: "RD".into(),
                is_function: false,
                params: vec!["P1%".into()],
                body,
                is_static: false,
            }],
            stdin: vec![],
        }
    }
}

pub fn gen_resume_shapes(rng: &mut Rng) -> Scenario {
    let shape = rng.below(13);
    let mut g = Sh { rng, next: 0, t: 0 };
    if shape == 12 {
        return g.deep_recursion_shape();
    }
    let shape = shape % 6;
    if shape >= 4 {
        return g.failing_header_shape();
    }
    if shape == 2 {
        return g.return_cast_shape();
    }
    if shape == 3 {
        return g.call_site_row_shape();
    }
    let mut main: Vec<Stmt> = vec![];
    let mut procs: Vec<Proc> = vec![];
    main.push(g.trace(&[]));
    let in_gosub = g.rng.chance(1, 3);
    let mut part: Vec<Stmt> = vec![];
    let kind;
    let mut retries = None;
    if shape == 0 {
        // RESUME label: the label is inside a loop (or two), the failing call is
        // several levels deep; the loops must go on with their bounds
        let depth = 1 + g.rng.below(3) as u32;
        let (p, call) = g.call_chain(depth);
        procs = p;
        let k = 1 + g.rng.below(2) as i32;
        let guarded = g.st(StmtKind::IfLine {
            cond: Expr::Cmp(
                CmpOp::Lt,
                Box::new(Expr::Var("G3%".into())),
                Box::new(Expr::Int(k)),
            ),
            then_s: Box::new(call),
            else_s: None,
        });
        let mut body = vec![
            g.st(StmtKind::Label("RL1".into())),
            g.trace(&["W1%", "G3%"]),
            guarded,
            g.trace(&["W1%"]),
        ];
        let loops = g.rng.below(3);
        if loops >= 1 {
            body = vec![g.for_loop("W1%", body)];
        }
        if loops >= 2 {
            // no device statements here: a fault there would make the handler jump
            // from outside into the inner loop
            let bump = |g: &mut Sh| {
                g.st(StmtKind::Assign {
                    var: "G2%".into(),
                    expr: Expr::Add(
                        Box::new(Expr::Var("G2%".into())),
                        Box::new(Expr::Var("W2%".into())),
                    ),
                })
            };
            let a = bump(&mut g);
            let b = bump(&mut g);
            body.insert(0, a);
            body.push(b);
            body = vec![g.for_loop("W2%", body)];
        }
        // the handler is armed for the loops only: RESUME RL1 is meaningful for errors
        // raised inside them
        part.push(g.st(StmtKind::OnErrorGoto("H1".into())));
        part.extend(body);
        part.push(g.st(StmtKind::OnErrorGoto0));
        kind = ResumeKind::Label("RL1".into());
    } else {
        // an error inside a loop body, handled by RESUME (after retries) or RESUME NEXT;
        // afterwards a GOTO leaves an inner loop for a label of the enclosing loop
        let failing = if g.rng.chance(1, 2) {
            let depth = 1 + g.rng.below(2) as u32;
            let (p, call) = g.call_chain(depth);
            procs = p;
            call
        } else {
            g.fail()
        };
        let b1 = vec![g.trace(&["W1%"]), failing, g.trace(&["W1%", "G3%"])];
        part.push(g.st(StmtKind::OnErrorGoto("H1".into())));
        part.push(g.for_loop("W1%", b1));
        let jump = if g.rng.chance(1, 2) {
            g.st(StmtKind::Goto("LB1".into()))
        } else {
            let go = g.st(StmtKind::Goto("LB1".into()));
            g.st(StmtKind::IfLine {
                cond: Expr::Cmp(
                    CmpOp::Ge,
                    Box::new(Expr::Var("W3%".into())),
                    Box::new(Expr::Int(1)),
                ),
                then_s: Box::new(go),
                else_s: None,
            })
        };
        let inner_body = vec![jump, g.trace(&["W3%"])];
        let inner = g.for_loop("W3%", inner_body);
        let b2 = vec![
            g.trace(&["W2%"]),
            inner,
            g.st(StmtKind::Label("LB1".into())),
            g.trace(&["W2%", "W3%"]),
        ];
        part.push(g.for_loop("W2%", b2));
        kind = ResumeKind::Next;
        if g.rng.chance(2, 3) {
            retries = Some(1 + g.rng.below(2) as i32);
        }
    }
    let mut gosub_body: Vec<Stmt> = vec![];
    if in_gosub {
        main.push(g.st(StmtKind::Gosub("GB1".into())));
        gosub_body.push(g.st(StmtKind::Label("GB1".into())));
        gosub_body.extend(part);
        gosub_body.push(g.trace(&["G3%"]));
        gosub_body.push(g.st(StmtKind::Return(None)));
    } else {
        main.extend(part);
    }
    main.push(g.trace(&["G3%"]));
    main.push(g.st(StmtKind::End));
    main.extend(gosub_body);
    g.handler(&mut main, kind, retries);
    Scenario {
        main,
        procs,
        stdin: vec![],
    }
}

pub fn gen_control_flow(rng: &mut Rng, avoid: &Avoid) -> Scenario {
    if rng.chance(1, 12) {
        return gen_resume_shapes(rng);
    }
    let f = Features::random(rng);
    let mut g = G {
        rng,
        f,
        avoid: avoid.clone(),
        next_id: 0,
        gosub_bodies: vec![],
        n_gosub: 0,
        n_labels: 0,
        procs: vec![],
        callable_subs: vec![],
        callable_fns: vec![],
        in_proc: false,
        in_gosub_body: false,
        in_for_depth: 0,
        in_for_step_depth: 0,
        in_select_depth: 0,
        in_loop_depth: 0,
        budget: 0,
        files_open: false,
        stdin: vec![],
        trace_no: 0,
        has_fail_in_proc: false,
        uses_resume_label: false,
        pending_return_labels: vec![],
        in_proc_now: false,
    };
    // procedures first (higher numbers are generated first so lower ones can call them)
    let mut procs: Vec<Proc> = vec![];
    if g.f.functions {
        let n = 1 + g.rng.below(2);
        for i in (1..=n).rev() {
            let name = format!("F{}%", i);
            let p = g.gen_proc(&name, true);
            g.callable_fns.push(name);
            procs.push(p);
        }
    }
    if g.f.subs {
        let n = 1 + g.rng.below(2);
        for i in (1..=n).rev() {
            let name = format!("S{}", i);
            let p = if g.rng.chance(1, 4) {
                g.gen_static_sub(&name)
            } else {
                g.gen_proc(&name, false)
            };
            g.callable_subs.push(name);
            procs.push(p);
        }
    }
    g.procs = procs;

    // main
    g.budget = 6 + g.rng.below(20) as i32;
    let n = 3 + g.rng.below(8);
    let mut main: Vec<Stmt> = vec![];
    if g.f.io_files {
        main.push(g.st(StmtKind::Open {
            name: "T.TXT".into(),
            mode: Mode::Output,
            handle: 1,
            len: None,
        }));
        g.files_open = true;
    }
    let mut list = g.top_list(n);
    // handler arming: ON ERROR GOTO H1 somewhere early; optionally GOTO 0 later and re-arm
    let mut need_h2 = false;
    let mut need_h1 = g.f.handler_in_sub && g.f.handler;
    if g.f.handler && g.f.on_error_resume_next && g.rng.chance(1, 2) && list.len() > 2 {
        // errors are swallowed first; the handler is armed later
        need_h1 = true;
        let s = g.st(StmtKind::OnErrorResumeNext);
        list.insert(0, s);
        let at = 2 + g.rng.below(list.len() - 1);
        let s = g.st(StmtKind::OnErrorGoto("H1".into()));
        list.insert(at.min(list.len()), s);
    } else if g.f.handler {
        need_h1 = true;
        let at = g.rng.below(list.len().min(3) + 1);
        let s = g.st(StmtKind::OnErrorGoto("H1".into()));
        list.insert(at, s);
        if g.f.on_error_goto_0 && list.len() > at + 2 {
            let z = at + 1 + g.rng.below(list.len() - at - 1);
            let s = g.st(StmtKind::OnErrorGoto0);
            list.insert(z + 1, s);
            if g.rng.chance(1, 2) && list.len() > z + 3 {
                let r = z + 2 + g.rng.below(list.len() - z - 2);
                let h = if g.rng.chance(1, 2) {
                    need_h2 = true;
                    "H2"
                } else {
                    "H1"
                };
                let s = g.st(StmtKind::OnErrorGoto(h.into()));
                list.insert(r, s);
            }
        }
    } else if g.f.on_error_resume_next {
        let at = g.rng.below(list.len().min(3) + 1);
        let s = g.st(StmtKind::OnErrorResumeNext);
        list.insert(at, s);
    }
    if g.f.handler && !g.f.on_error_goto_0 && list.len() > 3 && g.rng.chance(1, 4) {
        // replace the active handler by another one
        let at = 2 + g.rng.below(list.len() - 2);
        need_h2 = true;
        let s = g.st(StmtKind::OnErrorGoto("H2".into()));
        list.insert(at, s);
    }
    if g.f.handler && g.f.on_error_resume_next && list.len() > 3 {
        // switch mode in the middle
        let at = 2 + g.rng.below(list.len() - 2);
        let s = g.st(StmtKind::OnErrorResumeNext);
        list.insert(at, s);
    }
    // RESUME label target
    let use_resume_label = g.f.handler && g.f.resume_label;
    if use_resume_label {
        let at = 1 + g.rng.below(list.len());
        let s = g.st(StmtKind::Label("RL1".into()));
        list.insert(at, s);
        g.uses_resume_label = true;
    }
    main.extend(list);
    if g.files_open {
        main.push(g.st(StmtKind::Close(vec![])));
    }
    main.push(g.trace());
    // the main module may also end without END: its last statement is then the last
    // statement of the module text (possible only when no GOSUB body or handler follows)
    let open_end = g.gosub_bodies.is_empty() && !need_h1 && g.rng.chance(1, 2);
    if open_end {
        if g.f.fails && g.rng.chance(1, 2) {
            let s = g.fail_stmt();
            main.push(s);
        }
    } else {
        main.push(g.st(StmtKind::End));
    }
    // GOSUB bodies
    let bodies = std::mem::take(&mut g.gosub_bodies);
    for b in bodies {
        main.extend(b);
    }
    // handler
    if need_h1 {
        main.push(g.st(StmtKind::Label("H1".into())));
        if g.f.on_error_goto_0 && g.rng.chance(1, 10) {
            // the handler switches trapping off first of all: ERR still holds the code of
            // the error it is handling
            main.push(g.st(StmtKind::OnErrorGoto0));
        }
        // handler trace goes to LPT1 or screen
        let mut items = vec![
            PItem::E(Expr::Str("H".into())),
            PItem::Semi,
            PItem::E(Expr::Err),
        ];
        if g.rng.chance(1, 2) {
            items.push(PItem::Semi);
            items.push(PItem::E(Expr::Var(GLOBALS[3].to_string())));
        }
        main.push(g.st(StmtKind::Print {
            dev: Dev::Screen,
            items,
            using: None,
        }));
        // handler modifies a global: variables must stay "as the handler left them"
        main.push(g.st(StmtKind::Assign {
            var: GLOBALS[3].to_string(),
            expr: Expr::Add(
                Box::new(Expr::Var(GLOBALS[3].to_string())),
                Box::new(Expr::Int(1)),
            ),
        }));
        let kind = if g.uses_resume_label && g.rng.chance(1, 2) {
            ResumeKind::Label("RL1".into())
        } else {
            ResumeKind::Next
        };
        if g.f.resume_bare {
            // bounded retry: RESUME twice, then RESUME NEXT; repairs the cause for
            // module-level arithmetic failures by setting ZZ%
            main.push(g.st(StmtKind::Assign {
                var: "HC%".into(),
                expr: Expr::Add(Box::new(Expr::Var("HC%".into())), Box::new(Expr::Int(1))),
            }));
            let resume = Stmt {
                id: g.id(),
                kind: StmtKind::Resume(ResumeKind::Bare),
            };
            let n = g.rng.range(1, 3) as i32;
            main.push(Stmt {
                id: g.id(),
                kind: StmtKind::IfLine {
                    cond: Expr::Cmp(
                        CmpOp::Le,
                        Box::new(Expr::Mul(
                            Box::new(Expr::Var("HC%".into())),
                            Box::new(Expr::Int(1)),
                        )),
                        Box::new(Expr::Int(n)),
                    ),
                    then_s: Box::new(resume),
                    else_s: None,
                },
            });
            if g.rng.chance(1, 2) {
                main.push(g.st(StmtKind::Assign {
                    var: "HC%".into(),
                    expr: Expr::Int(0),
                }));
            }
        }
        if g.f.on_error_goto_0 && g.rng.chance(1, 5) {
            // the handler switches error trapping off before it resumes
            main.push(g.st(StmtKind::OnErrorGoto0));
            if g.rng.chance(1, 3) {
                // ... and then fails itself: the error ends the program and is reported
                // with its position and the calls that were active when the first error
                // was raised (the handler has not resumed, they still are)
                let k = *g.rng.pick(&[
                    FailKind::DivZero,
                    FailKind::Overflow,
                    FailKind::IllegalCall,
                    FailKind::BadHandle,
                    FailKind::DivZeroMid,
                ]);
                main.push(g.st(StmtKind::Fail(k)));
            }
        }
        if g.f.gosub && g.rng.chance(1, 12) {
            // the handler is left by RETURN: it takes the GOSUB of the interrupted code
            // (error 3 inside the handler when there is none)
            main.push(g.st(StmtKind::Return(None)));
        }
        if g.rng.chance(1, 6) {
            // resume from inside a GOSUB routine of the handler
            main.push(g.st(StmtKind::Gosub("HG1".into())));
            main.push(g.st(StmtKind::Label("HG1".into())));
        }
        main.push(g.st(StmtKind::Resume(kind)));
    }
    if need_h2 {
        main.push(g.st(StmtKind::Label("H2".into())));
        main.push(g.st(StmtKind::Print {
            dev: Dev::Screen,
            items: vec![
                PItem::E(Expr::Str("H2".into())),
                PItem::Semi,
                PItem::E(Expr::Err),
            ],
            using: None,
        }));
        main.push(g.st(StmtKind::Assign {
            var: GLOBALS[2].to_string(),
            expr: Expr::Sub(
                Box::new(Expr::Var(GLOBALS[2].to_string())),
                Box::new(Expr::Int(1)),
            ),
        }));
        main.push(g.st(StmtKind::Resume(ResumeKind::Next)));
    }
    let procs = std::mem::take(&mut g.procs);
    Scenario {
        main,
        procs,
        stdin: g.stdin.clone(),
    }
}
