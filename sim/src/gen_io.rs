//! Generators for PRINT histories (C16) and file histories (C18).

use std::collections::{BTreeMap, BTreeSet};

use crate::dsl::*;
use crate::r#gen::Avoid;
use crate::prng::Rng;

struct Ids(StmtId);
impl Ids {
    fn st(&mut self, kind: StmtKind) -> Stmt {
        self.0 += 1;
        Stmt { id: self.0, kind }
    }
}

fn num_lit(text: &str, value: f64) -> Expr {
    Expr::Num(NumLit {
        text: text.to_string(),
        value,
    })
}

fn rand_string(rng: &mut Rng) -> String {
    const WORDS: [&str; 15] = [
        "",
        "a",
        "ab",
        "Hello",
        "x y",
        " lead",
        "trail ",
        "ABCDEFGHIJKLM",   // 13
        "ABCDEFGHIJKLMN",  // 14
        "ABCDEFGHIJKLMNO", // 15
        "1234567890123",   // 13
        "zone!",
        // text beyond ASCII: one column per character, whatever the bytes on the device
        "h\u{e9}llo",
        "\u{c8}\u{c8}\u{c8}",
        "ABCDEFGHIJKL\u{c9}", // 13
    ];
    rng.pick(&WORDS).to_string()
}

fn rand_item(rng: &mut Rng, allow_breaks: bool) -> Expr {
    match rng.below(12) {
        0 => Expr::Int(0),
        1 => Expr::Int(rng.range(1, 999) as i32),
        2 => Expr::Int(-(rng.range(1, 999) as i32)),
        3 => Expr::Int(*rng.pick(&[32767, -32768, 10, -1])),
        4 => {
            if rng.chance(1, 5) {
                // a LONG that is exactly zero
                let t = *rng.pick(&["(100000 - 100000)", "(65536 * 0)"]);
                return num_lit(t, 0.0);
            }
            let v = *rng.pick(&[100000i64, -123456, 2147483647, 65536]);
            num_lit(&format!("{}", v), v as f64)
        }
        5 => {
            if rng.chance(1, 6) {
                // a negative zero (SINGLE, DOUBLE): a zero, printed with a leading space
                let t = *rng.pick(&["(0 * (-1.5))", "(0 * (-0.5#))", "(-(0.5 - 0.5))"]);
                return num_lit(t, 0.0);
            }
            let (t, v) = *rng.pick(&[
                ("1.5", 1.5),
                ("-0.25", -0.25),
                ("2.75", 2.75),
                ("0.5", 0.5),
                ("-12.125", -12.125),
                ("100.5", 100.5),
            ]);
            num_lit(t, v)
        }
        6 => {
            let (t, v) = *rng.pick(&[("3.125#", 3.125), ("-0.5#", -0.5), ("1024.25#", 1024.25)]);
            num_lit(t, v)
        }
        7 if allow_breaks => {
            let a = rand_string(rng);
            let b = rand_string(rng);
            let br = *rng.pick(&["\r", "\n", "\r\n"]);
            Expr::Str(format!("{}{}{}", a, br, b))
        }
        8 => Expr::Var("G1%".into()),
        _ => Expr::Str(rand_string(rng)),
    }
}

fn est_len(e: &Expr) -> usize {
    match e {
        Expr::Int(n) => format!("{}", n).len() + 2,
        Expr::Num(n) => n.text.len() + 2,
        Expr::Str(s) => s.len(),
        _ => 6,
    }
}

/// Random item list with separators in every position. `col` is the generator's
/// estimate of the device column; lines are kept well below 70 columns.
fn rand_items(rng: &mut Rng, col: &mut usize, allow_breaks: bool, call: Option<&str>) -> Vec<PItem> {
    let mut items = vec![];
    // leading separators
    while rng.chance(1, 6) && *col < 28 {
        if rng.chance(1, 2) {
            items.push(PItem::Comma);
            *col = (*col / 14 + 1) * 14;
        } else {
            items.push(PItem::Semi);
        }
    }
    let n = rng.below(5);
    let mut last_was_expr = false;
    for i in 0..n {
        if *col > 44 {
            break;
        }
        if last_was_expr {
            // a separator is mandatory between two expressions
            let kmax = if rng.chance(1, 5) { 3 } else { 1 };
            let k = 1 + rng.below(kmax);
            for _ in 0..k {
                if rng.chance(1, 2) && *col < 42 {
                    items.push(PItem::Comma);
                    *col = (*col / 14 + 1) * 14;
                } else {
                    items.push(PItem::Semi);
                }
            }
        }
        let e = match call {
            Some(name) if i == 1 && rng.chance(1, 2) => {
                Expr::Call(name.to_string(), vec![Expr::Int(rng.range(0, 5) as i32)])
            }
            _ => rand_item(rng, allow_breaks),
        };
        if let Expr::Str(s) = &e {
            if s.contains('\r') || s.contains('\n') {
                *col = s.rsplit(['\r', '\n']).next().unwrap_or("").len();
            } else {
                *col += s.len();
            }
        } else {
            *col += est_len(&e);
        }
        items.push(PItem::E(e));
        last_was_expr = true;
    }
    // trailing separator
    match rng.below(4) {
        0 => items.push(PItem::Semi),
        1 if *col < 42 => {
            items.push(PItem::Comma);
            *col = (*col / 14 + 1) * 14;
        }
        _ => *col = 0,
    }
    items
}

struct UsingFmt {
    text: String,
    /// field kinds in order: 'i' integer, 'd' with decimals (count), 's' string (width), 'c' first char
    fields: Vec<(char, usize, usize)>,
}

fn rand_using(rng: &mut Rng) -> UsingFmt {
    let lits = ["A=", " ", "|", "x: ", "", " - ", "<", ">"];
    let mut text = String::new();
    let mut fields = vec![];
    let n = 1 + rng.below(3);
    for i in 0..n {
        // consecutive fields are always separated by literal text
        let mut l = *rng.pick(&lits[..]);
        if i > 0 && l.is_empty() {
            l = " ";
        }
        text.push_str(l);
        match rng.below(7) {
            0 => {
                let w = 2 + rng.below(3);
                text.push_str(&"#".repeat(w));
                fields.push(('i', w, 0));
            }
            6 => {
                // wide enough for whole numbers that no SINGLE holds exactly
                text.push_str("#########");
                fields.push(('I', 9, 0));
            }
            1 => {
                text.push_str("#,###");
                fields.push(('i', 5, 0));
            }
            2 => {
                let w = 2 + rng.below(2);
                let d = 1 + rng.below(2);
                text.push_str(&"#".repeat(w));
                text.push('.');
                text.push_str(&"#".repeat(d));
                fields.push(('d', w, d));
            }
            3 => {
                let inner = rng.below(4);
                text.push('\\');
                text.push_str(&" ".repeat(inner));
                text.push('\\');
                fields.push(('s', inner + 2, 0));
            }
            4 => {
                text.push('!');
                fields.push(('c', 1, 0));
            }
            _ => {
                text.push_str("###");
                fields.push(('i', 3, 0));
            }
        }
    }
    if rng.chance(1, 2) {
        text.push_str(*rng.pick(&lits[..]));
    }
    UsingFmt { text, fields }
}

fn using_value(rng: &mut Rng, f: (char, usize, usize)) -> Expr {
    match f.0 {
        'I' => Expr::Int(*rng.pick(&[16777217, 123456789, 99999999, 33554433, 7, -16777219])),
        'i' => {
            let max = 10i64.pow((f.1.min(4)) as u32 - 1) - 1;
            let v = rng.range(0, max.max(1)) as i32;
            if rng.chance(1, 5) && f.1 >= 3 {
                // the sign takes one position of the field (in #,### three digits still fit)
                let m = if f.1 >= 5 { 1000 } else if f.1 == 4 { 100 } else { 10 };
                Expr::Int(-(v % m))
            } else {
                Expr::Int(v)
            }
        }
        'd' => {
            let whole = rng.range(0, 9);
            let (ft, fv) = if f.2 >= 2 {
                *rng.pick(&[("25", 0.25), ("5", 0.5), ("75", 0.75), ("0", 0.0)])
            } else {
                *rng.pick(&[("5", 0.5), ("0", 0.0)])
            };
            let v = whole as f64 + fv;
            num_lit(&format!("{}.{}", whole, ft), v)
        }
        's' => Expr::Str(rand_string(rng)),
        _ => {
            let mut s = rand_string(rng);
            if s.is_empty() {
                s = "q".into();
            }
            Expr::Str(s)
        }
    }
}

pub fn gen_print_history(rng: &mut Rng, avoid: &Avoid) -> History {
    let mut ids = Ids(0);
    let use_lpt1 = rng.chance(2, 3);
    let use_f1 = rng.chance(2, 3);
    let use_f2 = use_f1 && rng.chance(1, 2);
    let handler = rng.chance(3, 5);
    let allow_breaks = rng.chance(1, 3);
    let use_using = rng.chance(1, 3);
    let with_fn = rng.chance(1, 3) && !avoid.print_item_calls_printing_function && use_lpt1;
    let mut main = vec![];
    if handler {
        main.push(ids.st(StmtKind::OnErrorGoto("H1".into())));
    }
    main.push(ids.st(StmtKind::Assign {
        var: "G1%".into(),
        expr: Expr::Int(rng.range(-99, 99) as i32),
    }));
    if use_f1 {
        main.push(ids.st(StmtKind::Open {
            name: "P1.TXT".into(),
            mode: Mode::Output,
            handle: 1,
            len: None,
        }));
    }
    if use_f2 {
        main.push(ids.st(StmtKind::Open {
            name: "P2.TXT".into(),
            mode: Mode::Output,
            handle: 2,
            len: None,
        }));
    }
    let mut devs = vec![Dev::Screen];
    if use_lpt1 {
        devs.push(Dev::Lpt1);
    }
    if use_f1 {
        devs.push(Dev::File(1));
    }
    if use_f2 {
        devs.push(Dev::File(2));
    }
    let mut cols: BTreeMap<String, usize> = BTreeMap::new();
    let n = 1 + rng.below(14);
    let mut last_fmt: Option<UsingFmt> = None;
    for _ in 0..n {
        let dev = *rng.pick(&devs);
        let key = format!("{:?}", dev);
        let mut col = *cols.get(&key).unwrap_or(&0);
        if use_using && rng.chance(1, 3) {
            // the same format string is often used by consecutive statements
            let fmt = match last_fmt.take() {
                Some(f) if rng.chance(1, 2) => f,
                _ => rand_using(rng),
            };
            let nv = 1 + rng.below(fmt.fields.len() * 2);
            let mut items = vec![];
            for i in 0..nv {
                if i > 0 {
                    items.push(PItem::Semi);
                }
                items.push(PItem::E(using_value(rng, fmt.fields[i % fmt.fields.len()])));
            }
            if rng.chance(1, 4) {
                items.push(PItem::Semi);
                col += 20;
            } else {
                col = 0;
            }
            main.push(ids.st(StmtKind::Print {
                dev,
                items,
                using: Some(fmt.text.clone()),
            }));
            last_fmt = Some(fmt);
        } else {
            let call = if with_fn && dev != Dev::Lpt1 {
                Some("FP1%")
            } else {
                None
            };
            let items = rand_items(rng, &mut col, allow_breaks, call);
            main.push(ids.st(StmtKind::Print {
                dev,
                items,
                using: None,
            }));
        }
        cols.insert(key, col);
        // close and reopen a file in the middle (APPEND): a new instance starts at column 0
        if use_f1 && rng.chance(1, 12) {
            main.push(ids.st(StmtKind::Close(vec![1])));
            main.push(ids.st(StmtKind::Open {
                name: "P1.TXT".into(),
                mode: Mode::Append,
                handle: 1,
                len: None,
            }));
            cols.insert(format!("{:?}", Dev::File(1)), 0);
        }
    }
    main.push(ids.st(StmtKind::Close(vec![])));
    main.push(ids.st(StmtKind::End));
    if handler {
        main.push(ids.st(StmtKind::Label("H1".into())));
        main.push(ids.st(StmtKind::Assign {
            var: "G4%".into(),
            expr: Expr::Add(Box::new(Expr::Var("G4%".into())), Box::new(Expr::Int(1))),
        }));
        main.push(ids.st(StmtKind::Resume(ResumeKind::Next)));
    }
    let mut procs = vec![];
    if with_fn {
        // a function that prints to LPT1 while an outer PRINT to another device is under way
        let mut body = vec![];
        let mut c = 0usize;
        let items = rand_items(rng, &mut c, false, None);
        body.push(ids.st(StmtKind::Print {
            dev: Dev::Lpt1,
            items,
            using: None,
        }));
        if rng.chance(1, 2) {
            // a built-in call after the nested PRINT and before the return
            body.push(ids.st(StmtKind::Assign {
                var: "L1%".into(),
                expr: Expr::LenOf("abc".into()),
            }));
        }
        let deeper = rng.chance(1, 2);
        if deeper {
            // one level further down (a SUB that prints, or does not), then another
            // PRINT of the function: the outer statement still has to finish on its
            // own device and in its own format
            body.push(ids.st(StmtKind::CallSub {
                name: "SP2".into(),
                args: vec![Expr::Int(1)],
            }));
            if rng.chance(2, 3) {
                let mut c = 0usize;
                let items = rand_items(rng, &mut c, false, None);
                body.push(ids.st(StmtKind::Print {
                    dev: Dev::Lpt1,
                    items,
                    using: None,
                }));
            }
        }
        body.push(ids.st(StmtKind::Assign {
            var: "FP1%".into(),
            expr: Expr::Add(Box::new(Expr::Var("P1%".into())), Box::new(Expr::Int(1))),
        }));
        procs.push(Proc {
            name: "FP1%".into(),
            is_function: true,
            params: vec!["P1%".into()],
            body,
            is_static: false,
        });
        if deeper {
            let mut body = vec![];
            if rng.chance(1, 2) {
                let mut c = 0usize;
                let items = rand_items(rng, &mut c, false, None);
                body.push(ids.st(StmtKind::Print {
                    dev: Dev::Lpt1,
                    items,
                    using: None,
                }));
            } else {
                body.push(ids.st(StmtKind::Assign {
                    var: "L1%".into(),
                    expr: Expr::Var("P1%".into()),
                }));
            }
            procs.push(Proc {
                name: "SP2".into(),
                is_function: false,
                params: vec!["P1%".into()],
                body,
                is_static: false,
            });
        }
    }
    History {
        programs: vec![Scenario {
            main,
            procs,
            stdin: vec![],
        }],
        files: vec![],
        dirs: vec![],
    }
}

// ----------------------------------------------------------------------
// file histories
// ----------------------------------------------------------------------

const NAMES: [&str; 3] = ["A.TXT", "B.TXT", "C.TXT"];

fn rand_text_file(rng: &mut Rng) -> Vec<u8> {
    let mut out = vec![];
    let lines = rng.below(5);
    for i in 0..lines {
        let nf = 1 + rng.below(3);
        for j in 0..nf {
            if j > 0 {
                out.push(b',');
            }
            if rng.chance(1, 4) {
                out.push(b' ');
            }
            match rng.below(5) {
                0 => {
                    if rng.chance(1, 4) {
                        out.extend_from_slice(rng.pick(&["16777217", "123456789", "-16777219", "70001"]).as_bytes())
                    } else {
                        out.extend_from_slice(format!("{}", rng.range(-99, 999)).as_bytes())
                    }
                }
                1 => {}
                4 if rng.chance(1, 3) => {
                    // a long field: line ends land on every offset modulo the sizes of
                    // read-ahead buffers
                    let n = rng.range(40, 140) as usize;
                    out.extend(std::iter::repeat_n(b'x', n));
                }
                // (control characters are text like any other: Ctrl-Z, TAB, form feed)
                _ => out.extend_from_slice(
                    rng.pick(&["ab", "Hello", "x y", "q", "Z9", "ab", "Hello", "q", "a\u{1a}b", "t\u{9}b", "\u{c}"])
                        .as_bytes(),
                ),
            }
            if rng.chance(1, 5) {
                out.push(b' ');
            }
        }
        let last = i + 1 == lines;
        if !(last && rng.chance(1, 3)) {
            out.extend_from_slice(rng.pick(&["\n", "\r\n", "\r", "\r\n"]).as_bytes());
        }
    }
    out
}

struct Abs {
    /// handle -> (mode, name)
    open: BTreeMap<i32, (Mode, String)>,
    exists: BTreeSet<String>,
}

pub fn gen_file_history(rng: &mut Rng, _avoid: &Avoid) -> History {
    let mut files: Vec<(String, Vec<u8>)> = vec![];
    let mut exists = BTreeSet::new();
    for n in NAMES {
        if rng.chance(1, 2) {
            files.push((n.to_string(), rand_text_file(rng)));
            exists.insert(n.to_string());
        }
    }
    let dirs = vec!["DIRX".to_string()];
    let nprog = 1 + rng.below(3);
    let mut programs = vec![];
    for _ in 0..nprog {
        let sc = match rng.below(20) {
            0..=3 => gen_parity_program(rng, &mut files, &mut exists),
            4..=7 => gen_roundtrip_program(rng, &mut exists),
            8 => gen_follow_program(rng, &mut exists),
            _ => gen_file_program(rng, &mut exists),
        };
        programs.push(sc);
    }
    History {
        programs,
        files,
        dirs,
    }
}

fn trace_vars(ids: &mut Ids) -> Stmt {
    ids.st(StmtKind::Print {
        dev: Dev::Screen,
        items: vec![
            PItem::E(Expr::Str("V".into())),
            PItem::Semi,
            PItem::E(Expr::Var("I1%".into())),
            PItem::Semi,
            PItem::E(Expr::Var("L1&".into())),
            PItem::Semi,
            PItem::E(Expr::Str("[".into())),
            PItem::Semi,
            PItem::E(Expr::SVar("S1$".into())),
            PItem::Semi,
            PItem::E(Expr::Str("][".into())),
            PItem::Semi,
            PItem::E(Expr::SVar("S2$".into())),
            PItem::Semi,
            PItem::E(Expr::Str("][".into())),
            PItem::Semi,
            PItem::E(Expr::SVar("S3$".into())),
            PItem::Semi,
            PItem::E(Expr::Str("]".into())),
        ],
        using: None,
    })
}

fn handler_tail(ids: &mut Ids, main: &mut Vec<Stmt>) {
    main.push(ids.st(StmtKind::Label("H1".into())));
    main.push(ids.st(StmtKind::Print {
        dev: Dev::Screen,
        items: vec![
            PItem::E(Expr::Str("E".into())),
            PItem::Semi,
            PItem::E(Expr::Err),
        ],
        using: None,
    }));
    main.push(ids.st(StmtKind::Resume(ResumeKind::Next)));
}

/// The same bytes are presented once on the console and once as a file and read by the
/// same sequence of INPUT / LINE INPUT statements.
fn gen_parity_program(
    rng: &mut Rng,
    files: &mut Vec<(String, Vec<u8>)>,
    exists: &mut BTreeSet<String>,
) -> Scenario {
    let mut ids = Ids(0);
    let content = rand_text_file(rng);
    if !exists.contains("PAR.TXT") {
        files.push(("PAR.TXT".into(), content.clone()));
        exists.insert("PAR.TXT".into());
    } else {
        // a previous program of the history already used it; reuse that content
        let c = files.iter().find(|f| f.0 == "PAR.TXT").unwrap().1.clone();
        return gen_parity_with(rng, c, &mut ids);
    }
    gen_parity_with(rng, content, &mut ids)
}

fn gen_parity_with(rng: &mut Rng, content: Vec<u8>, ids: &mut Ids) -> Scenario {
    let mut main = vec![];
    let handler = rng.chance(1, 2);
    if handler {
        main.push(ids.st(StmtKind::OnErrorGoto("H1".into())));
    }
    // the read sequence
    let n = 1 + rng.below(5);
    let mut seq: Vec<u8> = vec![];
    for _ in 0..n {
        seq.push(rng.below(3) as u8);
    }
    // console pass
    for k in &seq {
        match k {
            0 => main.push(ids.st(StmtKind::LineInputCon { var: "S1$".into() })),
            1 => main.push(ids.st(StmtKind::InputCon {
                vars: vec!["S1$".into()],
            })),
            _ => main.push(ids.st(StmtKind::InputCon {
                vars: vec!["S1$".into(), "S2$".into()],
            })),
        }
        main.push(trace_vars(ids));
    }
    // file pass
    main.push(ids.st(StmtKind::Open {
        name: "PAR.TXT".into(),
        mode: Mode::Input,
        handle: 1,
        len: None,
    }));
    for k in &seq {
        match k {
            0 => main.push(ids.st(StmtKind::LineInputFile {
                handle: 1,
                var: "S1$".into(),
            })),
            1 => main.push(ids.st(StmtKind::InputFile {
                handle: 1,
                vars: vec!["S1$".into()],
            })),
            _ => main.push(ids.st(StmtKind::InputFile {
                handle: 1,
                vars: vec!["S1$".into(), "S2$".into()],
            })),
        }
        main.push(trace_vars(ids));
    }
    main.push(ids.st(StmtKind::Close(vec![1])));
    main.push(ids.st(StmtKind::End));
    if handler {
        handler_tail(ids, &mut main);
    }
    Scenario {
        main,
        procs: vec![],
        stdin: content,
    }
}

/// Write with PRINT #, close, read back with LINE INPUT # / INPUT # until EOF: the first
/// sentence of the property, end to end, also across programs of a history (APPEND).
fn gen_roundtrip_program(rng: &mut Rng, exists: &mut BTreeSet<String>) -> Scenario {
    let mut ids = Ids(0);
    let mut main = vec![];
    let handler = rng.chance(1, 2);
    if handler {
        main.push(ids.st(StmtKind::OnErrorGoto("H1".into())));
    }
    let name = rng.pick(&NAMES).to_string();
    let append = exists.contains(&name) && rng.chance(1, 2);
    let hw = rng.range(1, 3) as i32;
    main.push(ids.st(StmtKind::Open {
        name: name.clone(),
        mode: if append { Mode::Append } else { Mode::Output },
        handle: hw,
        len: None,
    }));
    exists.insert(name.clone());
    let nlines = 1 + rng.below(4);
    let mut shapes: Vec<usize> = vec![];
    for _ in 0..nlines {
        let nf = 1 + rng.below(3);
        shapes.push(nf);
        let mut items = vec![];
        for j in 0..nf {
            if j > 0 {
                items.push(PItem::Semi);
                items.push(PItem::E(Expr::Str(",".into())));
                items.push(PItem::Semi);
            }
            match rng.below(6) {
                0 => items.push(PItem::E(Expr::Int(rng.range(-999, 999) as i32))),
                1 => items.push(PItem::E(Expr::Str("z".repeat(rng.range(1, 70) as usize)))),
                // whole numbers no SINGLE can hold exactly
                4 => items.push(PItem::E(Expr::Int(*rng.pick(&[
                    16777217, 123456789, -16777219, 2147483647, 70001, 33554433,
                ])))),
                // text beyond ASCII
                5 => items.push(PItem::E(Expr::Str(
                    rng.pick(&["h\u{e9}llo", "\u{c8}", "na\u{ef}ve \u{fc}", "\u{cd}\u{cd}\u{cd}", "a\u{df}"]).to_string(),
                ))),
                _ => items.push(PItem::E(Expr::Str(
                    rng.pick(&["ab", "Hello", "q", "Z9", "x y", "end", "ab", "q", "c\u{1a}z"]).to_string(),
                ))),
            }
        }
        main.push(ids.st(StmtKind::Print {
            dev: Dev::File(hw),
            items,
            using: None,
        }));
    }
    main.push(ids.st(StmtKind::Close(vec![hw])));
    let hr = rng.range(1, 3) as i32;
    main.push(ids.st(StmtKind::Open {
        name,
        mode: Mode::Input,
        handle: hr,
        len: None,
    }));
    match rng.below(3) {
        0 => {
            // line by line until EOF
            let body = vec![
                ids.st(StmtKind::LineInputFile {
                    handle: hr,
                    var: "S1$".into(),
                }),
                trace_vars(&mut ids),
            ];
            let id = {
                ids.0 += 1;
                ids.0
            };
            main.push(Stmt {
                id,
                kind: StmtKind::Do {
                    top: true,
                    until: true,
                    cond: Expr::Eof(hr),
                    body,
                },
            });
        }
        1 => {
            // field by field, as written (only the lines written by this program when the
            // file was created here)
            let long_first = rng.chance(1, 3);
            for nf in &shapes {
                let mut vars: Vec<String> = ["S1$", "S2$", "S3$"].iter().take(*nf).map(|s| s.to_string()).collect();
                if long_first {
                    // defined when the field is a whole number in LONG range
                    vars[0] = "L1&".into();
                }
                main.push(ids.st(StmtKind::InputFile { handle: hr, vars }));
                main.push(trace_vars(&mut ids));
            }
        }
        _ => {
            // one read more than there are lines: the last one must raise error 62
            for _ in 0..(shapes.len() + if append { 3 } else { 1 }) {
                main.push(ids.st(StmtKind::LineInputFile {
                    handle: hr,
                    var: "S1$".into(),
                }));
                main.push(trace_vars(&mut ids));
            }
        }
    }
    main.push(ids.st(StmtKind::Print {
        dev: Dev::Screen,
        items: vec![
            PItem::E(Expr::Str("EOF".into())),
            PItem::Semi,
            PItem::E(Expr::Eof(hr)),
        ],
        using: None,
    }));
    main.push(ids.st(StmtKind::Close(vec![])));
    main.push(ids.st(StmtKind::End));
    if handler {
        handler_tail(&mut ids, &mut main);
    }
    Scenario {
        main,
        procs: vec![],
        stdin: vec![],
    }
}

/// A reader that has reached the end of a file while an APPEND writer on another handle
/// goes on adding lines: "EOF(n) is true exactly when nothing is left", so the reader
/// sees every new line, and is at the end again after it has read them.
fn gen_follow_program(rng: &mut Rng, exists: &mut BTreeSet<String>) -> Scenario {
    let mut ids = Ids(0);
    let mut main = vec![];
    let handler = rng.chance(1, 2);
    if handler {
        main.push(ids.st(StmtKind::OnErrorGoto("H1".into())));
    }
    let name = rng.pick(&NAMES).to_string();
    let (hw, hr) = *rng.pick(&[(1, 2), (2, 1), (1, 3), (3, 2)]);
    // when the file does not exist yet, a writer creates it first
    if !exists.contains(&name) {
        main.push(ids.st(StmtKind::Open {
            name: name.clone(),
            mode: Mode::Append,
            handle: hw,
            len: None,
        }));
        main.push(ids.st(StmtKind::Print {
            dev: Dev::File(hw),
            items: vec![PItem::E(Expr::Str("first".into()))],
            using: None,
        }));
        main.push(ids.st(StmtKind::Close(vec![hw])));
    }
    main.push(ids.st(StmtKind::Open {
        name: name.clone(),
        mode: Mode::Input,
        handle: hr,
        len: None,
    }));
    exists.insert(name.clone());
    let eof_trace = |ids: &mut Ids| {
        ids.st(StmtKind::Print {
            dev: Dev::Screen,
            items: vec![
                PItem::E(Expr::Str("EOF".into())),
                PItem::Semi,
                PItem::E(Expr::Eof(hr)),
            ],
            using: None,
        })
    };
    for round in 0..(1 + rng.below(3)) {
        // drain what is there (a read too many raises 62 under the handler)
        let body = vec![
            ids.st(StmtKind::LineInputFile {
                handle: hr,
                var: "S1$".into(),
            }),
            trace_vars(&mut ids),
        ];
        let id = {
            ids.0 += 1;
            ids.0
        };
        main.push(Stmt {
            id,
            kind: StmtKind::Do {
                top: true,
                until: true,
                cond: Expr::Eof(hr),
                body,
            },
        });
        main.push(eof_trace(&mut ids));
        if handler && rng.chance(1, 4) {
            main.push(ids.st(StmtKind::LineInputFile {
                handle: hr,
                var: "S2$".into(),
            }));
            main.push(trace_vars(&mut ids));
        }
        // a writer on another handle adds one or two lines and closes: from then on the
        // text is the reader's to see (while the writer is open it need not be)
        main.push(ids.st(StmtKind::Open {
            name: name.clone(),
            mode: Mode::Append,
            handle: hw,
            len: None,
        }));
        for k in 0..(1 + rng.below(2)) {
            let mut items = vec![PItem::E(Expr::Str(format!("r{}k{}", round, k)))];
            if rng.chance(1, 2) {
                items.push(PItem::Semi);
                items.push(PItem::E(Expr::Int(rng.range(-99, 99) as i32)));
            }
            if rng.chance(1, 5) {
                items.push(PItem::Semi);
            }
            main.push(ids.st(StmtKind::Print {
                dev: Dev::File(hw),
                items,
                using: None,
            }));
        }
        main.push(ids.st(StmtKind::Close(vec![hw])));
        main.push(eof_trace(&mut ids));
    }
    // and the rest
    main.push(ids.st(StmtKind::LineInputFile {
        handle: hr,
        var: "S3$".into(),
    }));
    main.push(trace_vars(&mut ids));
    main.push(eof_trace(&mut ids));
    main.push(ids.st(StmtKind::Close(vec![])));
    main.push(ids.st(StmtKind::End));
    if handler {
        handler_tail(&mut ids, &mut main);
    }
    Scenario {
        main,
        procs: vec![],
        stdin: vec![],
    }
}

fn gen_file_program(rng: &mut Rng, exists: &mut BTreeSet<String>) -> Scenario {
    let mut ids = Ids(0);
    let mut main = vec![];
    let handler = rng.chance(2, 3);
    if handler {
        main.push(ids.st(StmtKind::OnErrorGoto("H1".into())));
    }
    let mut abs = Abs {
        open: BTreeMap::new(),
        exists: exists.clone(),
    };
    let violate = |rng: &mut Rng| rng.chance(1, 8);
    let nops = 3 + rng.below(20);
    let mut random_open: Option<i32> = None;
    let second_view = rng.chance(1, 2);
    let refield = rng.chance(1, 2);
    let random_len: i32 = *rng.pick(&[8, 8, 10, 12, 16, 20]);
    let mut put_records: BTreeSet<i32> = BTreeSet::new();
    for _ in 0..nops {
        let w = [10u32, 10, 8, 8, 4, 6, 3, 3, 6];
        match rng.weighted(&w) {
            0 => {
                // OPEN
                let handle = if violate(rng) && !abs.open.is_empty() {
                    *rng.pick(&abs.open.keys().cloned().collect::<Vec<_>>())
                } else {
                    let free: Vec<i32> = (1..=3).filter(|h| !abs.open.contains_key(h)).collect();
                    if free.is_empty() {
                        continue;
                    }
                    *rng.pick(&free)
                };
                let mode = *rng.pick(&[Mode::Input, Mode::Input, Mode::Output, Mode::Append]);
                let name: String = if violate(rng) {
                    rng.pick(&["MISSING.TXT", "DIRX", "NODIR/X.TXT"]).to_string()
                } else if mode == Mode::Input {
                    let ex: Vec<&String> = abs
                        .exists
                        .iter()
                        .filter(|n| !abs.open.values().any(|(_, m)| m == *n))
                        .collect();
                    if ex.is_empty() {
                        "MISSING.TXT".to_string()
                    } else {
                        rng.pick(&ex).to_string()
                    }
                } else {
                    // mostly a file that is not open; sometimes one that another handle is
                    // writing to
                    let free: Vec<&&str> = NAMES
                        .iter()
                        .filter(|n| {
                            !abs.open.values().any(|(_, m)| m == **n)
                                || (rng.chance(1, 6)
                                    && abs.open.values().any(|(md, m)| {
                                        m == **n && (*md == Mode::Output || *md == Mode::Append)
                                    }))
                        })
                        .collect();
                    if free.is_empty() {
                        continue;
                    }
                    rng.pick(&free).to_string()
                };
                if name == "DIRX" && mode == Mode::Input {
                    continue;
                }
                let ok = !abs.open.contains_key(&handle)
                    && match mode {
                        Mode::Input => abs.exists.contains(&name),
                        _ => NAMES.contains(&name.as_str()),
                    };
                main.push(ids.st(StmtKind::Open {
                    name: name.clone(),
                    mode,
                    handle,
                    len: None,
                }));
                if ok {
                    abs.open.insert(handle, (mode, name.clone()));
                    if mode != Mode::Input {
                        abs.exists.insert(name);
                    }
                }
            }
            1 => {
                // PRINT #
                let outs: Vec<i32> = abs
                    .open
                    .iter()
                    .filter(|(_, (m, _))| *m == Mode::Output || *m == Mode::Append)
                    .map(|(h, _)| *h)
                    .collect();
                let handle = if outs.is_empty() || violate(rng) {
                    rng.range(1, 3) as i32
                } else {
                    *rng.pick(&outs)
                };
                let nf = 1 + rng.below(3);
                let mut items = vec![];
                for j in 0..nf {
                    if j > 0 {
                        items.push(PItem::Semi);
                        items.push(PItem::E(Expr::Str(",".into())));
                        items.push(PItem::Semi);
                    }
                    if rng.chance(1, 3) {
                        items.push(PItem::E(Expr::Int(rng.range(-99, 999) as i32)));
                    } else if rng.chance(1, 8) {
                        items.push(PItem::E(Expr::Str("y".repeat(rng.range(40, 140) as usize))));
                    } else {
                        items.push(PItem::E(Expr::Str(
                            rng.pick(&["ab", "Hello", "q", "Z9", "x y"]).to_string(),
                        )));
                    }
                }
                if rng.chance(1, 8) {
                    items.push(PItem::Semi);
                }
                main.push(ids.st(StmtKind::Print {
                    dev: Dev::File(handle),
                    items,
                    using: None,
                }));
            }
            2 | 3 => {
                // INPUT # / LINE INPUT #
                let ins: Vec<i32> = abs
                    .open
                    .iter()
                    .filter(|(_, (m, _))| *m == Mode::Input)
                    .map(|(h, _)| *h)
                    .collect();
                let handle = if ins.is_empty() || violate(rng) {
                    rng.range(1, 3) as i32
                } else {
                    *rng.pick(&ins)
                };
                if rng.chance(1, 6) {
                    // a numeric target (defined when the field is a decimal INTEGER)
                    main.push(ids.st(StmtKind::InputFile {
                        handle,
                        vars: vec![rng.pick(&["I1%", "L1&"]).to_string()],
                    }));
                } else if rng.chance(1, 2) {
                    main.push(ids.st(StmtKind::LineInputFile {
                        handle,
                        var: "S1$".into(),
                    }));
                } else if rng.chance(1, 2) {
                    main.push(ids.st(StmtKind::InputFile {
                        handle,
                        vars: vec!["S1$".into()],
                    }));
                } else {
                    main.push(ids.st(StmtKind::InputFile {
                        handle,
                        vars: vec!["S1$".into(), "S2$".into()],
                    }));
                }
                main.push(trace_vars(&mut ids));
            }
            4 => {
                // EOF(n)
                let ins: Vec<i32> = abs
                    .open
                    .iter()
                    .filter(|(_, (m, _))| *m == Mode::Input)
                    .map(|(h, _)| *h)
                    .collect();
                if ins.is_empty() {
                    continue;
                }
                let handle = *rng.pick(&ins);
                main.push(ids.st(StmtKind::Print {
                    dev: Dev::Screen,
                    items: vec![
                        PItem::E(Expr::Str("EOF".into())),
                        PItem::Semi,
                        PItem::E(Expr::Eof(handle)),
                    ],
                    using: None,
                }));
            }
            5 => {
                // CLOSE
                if rng.chance(1, 5) {
                    main.push(ids.st(StmtKind::Close(vec![])));
                    abs.open.clear();
                    random_open = None;
                } else if rng.chance(1, 3) {
                    // a list of handles, open or not
                    let n = 2 + rng.below(2);
                    let mut hs = vec![];
                    for _ in 0..n {
                        let h = rng.range(1, 3) as i32;
                        if !hs.contains(&h) {
                            hs.push(h);
                        }
                    }
                    for h in &hs {
                        abs.open.remove(h);
                        if random_open == Some(*h) {
                            random_open = None;
                        }
                    }
                    main.push(ids.st(StmtKind::Close(hs)));
                } else {
                    let h = rng.range(1, 3) as i32;
                    main.push(ids.st(StmtKind::Close(vec![h])));
                    abs.open.remove(&h);
                    if random_open == Some(h) {
                        random_open = None;
                    }
                }
            }
            6 => {
                // KILL (never an open file)
                let closed: Vec<String> = NAMES
                    .iter()
                    .map(|n| n.to_string())
                    .filter(|n| !abs.open.values().any(|(_, m)| m == n))
                    .collect();
                let name = if violate(rng) || closed.is_empty() {
                    "MISSING.TXT".to_string()
                } else {
                    rng.pick(&closed).clone()
                };
                if abs.open.values().any(|(_, m)| *m == name) {
                    continue;
                }
                main.push(ids.st(StmtKind::Kill(name.clone())));
                abs.exists.remove(&name);
            }
            7 => {
                // NAME a AS b (neither open, target must not exist: renaming over an existing
                // file is host-specific)
                let closed: Vec<String> = abs
                    .exists
                    .iter()
                    .filter(|n| !abs.open.values().any(|(_, m)| m == *n))
                    .cloned()
                    .collect();
                let from = if violate(rng) || closed.is_empty() {
                    "MISSING.TXT".to_string()
                } else {
                    rng.pick(&closed).clone()
                };
                let targets: Vec<String> = NAMES
                    .iter()
                    .map(|n| n.to_string())
                    .filter(|n| !abs.exists.contains(n) && *n != from)
                    .collect();
                if targets.is_empty() {
                    continue;
                }
                let to = rng.pick(&targets).clone();
                main.push(ids.st(StmtKind::NameAs(from.clone(), to.clone())));
                if abs.exists.remove(&from) {
                    abs.exists.insert(to);
                }
            }
            _ => {
                // RANDOM file session on handle 3
                if random_open.is_none() {
                    if abs.open.contains_key(&3) {
                        continue;
                    }
                    main.push(ids.st(StmtKind::Open {
                        name: "R.DAT".into(),
                        mode: Mode::Random,
                        handle: 3,
                        // one record length per program: what was PUT before a CLOSE must
                        // still be there after the file is opened again
                        len: Some(random_len),
                    }));
                    main.push(ids.st(StmtKind::Field {
                        handle: 3,
                        fields: vec![(4, "FA$".into()), (4, "FB$".into())],
                    }));
                    if second_view {
                        // a second FIELD statement on the handle: another view of the same
                        // record buffer, mapped from its first byte as well
                        main.push(ids.st(StmtKind::Field {
                            handle: 3,
                            fields: vec![(2, "FC$".into()), (5, "FD$".into())],
                        }));
                    } else if refield {
                        // the same variables fielded again with other widths: from now on
                        // LSET and PUT go by the new layout
                        main.push(ids.st(StmtKind::Field {
                            handle: 3,
                            fields: vec![(2, "FA$".into()), (6, "FB$".into())],
                        }));
                    }
                    abs.open.insert(3, (Mode::Random, "R.DAT".into()));
                    random_open = Some(3);
                }
                let k = 1 + rng.below(3);
                for _ in 0..k {
                    if put_records.is_empty() || rng.chance(1, 2) {
                        // (some values are longer than the field: PUT writes the field's width)
                        let a = *rng.pick(&["abcd", "WXYZ", "1234", "q  z", "abcdefgh", "toolong!"]);
                        let b = *rng.pick(&["efgh", "0000", "mnop", "overflowing"]);
                        main.push(ids.st(StmtKind::Lset {
                            var: "FA$".into(),
                            expr: Expr::Str(a.into()),
                        }));
                        main.push(ids.st(StmtKind::Lset {
                            var: "FB$".into(),
                            expr: Expr::Str(b.into()),
                        }));
                        let rec = rng.range(1, 4) as i32;
                        main.push(ids.st(StmtKind::Put { handle: 3, rec }));
                        put_records.insert(rec);
                    } else {
                        let recs: Vec<i32> = put_records.iter().cloned().collect();
                        let rec = *rng.pick(&recs);
                        main.push(ids.st(StmtKind::Get { handle: 3, rec }));
                        let mut items = vec![
                            PItem::E(Expr::Str("R[".into())),
                            PItem::Semi,
                            PItem::E(Expr::SVar("FA$".into())),
                            PItem::Semi,
                            PItem::E(Expr::Str("][".into())),
                            PItem::Semi,
                            PItem::E(Expr::SVar("FB$".into())),
                            PItem::Semi,
                            PItem::E(Expr::Str("]".into())),
                        ];
                        if second_view {
                            for v in ["FC$", "FD$"] {
                                items.push(PItem::Semi);
                                items.push(PItem::E(Expr::Str("(".into())));
                                items.push(PItem::Semi);
                                items.push(PItem::E(Expr::SVar(v.into())));
                                items.push(PItem::Semi);
                                items.push(PItem::E(Expr::Str(")".into())));
                            }
                        }
                        main.push(ids.st(StmtKind::Print {
                            dev: Dev::Screen,
                            items,
                            using: None,
                        }));
                    }
                }
            }
        }
    }
    if rng.chance(2, 3) {
        main.push(ids.st(StmtKind::Close(vec![])));
    }
    main.push(ids.st(StmtKind::End));
    if handler {
        handler_tail(&mut ids, &mut main);
    }
    *exists = abs.exists;
    Scenario {
        main,
        procs: vec![],
        stdin: vec![],
    }
}
