mod case;
mod check;
mod dsl;
mod emit;
mod r#gen;
mod gen_io;
mod model;
mod monitor;
mod prng;
mod raw;
mod runner;
mod shrink;
mod structure;
mod witness;
mod watch;
mod world;

use std::process::ExitCode;

use crate::r#gen::Profile;

fn main() -> ExitCode {
    runner::install_panic_hook();
    let args: Vec<String> = std::env::args().collect();
    if args.len() < 2 {
        eprintln!("usage: rbsim <run|gen|check|replay|selftest> ...");
        return ExitCode::from(2);
    }
    // everything runs on a thread with a large stack (parser and model recurse)
    let handle = std::thread::Builder::new()
        .stack_size(1 << 30)
        .spawn(move || match args[1].as_str() {
            "run" => cmd_run(&args[2..]),
            "gen" => cmd_gen(&args[2..]),
            "check" => cmd_check(&args[2..]),
            "replay" => cmd_replay(&args[2..]),
            "selftest" => cmd_selftest(&args[2..]),
            "witnesses" => cmd_witnesses(),
            "rawstats" => {
                // acceptance statistics of the raw generators
                let n: usize = args.get(2).and_then(|s| s.parse().ok()).unwrap_or(500);
                for (name, which) in [("wio", 0), ("wrep", 1)] {
                    let mut reasons: std::collections::BTreeMap<String, (usize, String)> = Default::default();
                    let mut ok = 0;
                    for i in 0..n {
                        let mut rng = prng::Rng::new(prng::mix(&[seed_from_env(), i as u64, which]));
                        let case = if which == 0 { raw::gen_wio(&mut rng) } else { raw::gen_wrep(&mut rng) };
                        let mut c = case.clone();
                        c.plan.clear();
                        let r = raw::run_raw(&c, None);
                        if r.accepted {
                            ok += 1;
                        } else {
                            let o = r.outcome.short();
                            // normalise positions and point at the offending line
                            let key: String = o.split("pos:").next().unwrap_or("").chars().take(90).collect();
                            let row: usize = o.split("row: ").nth(1).and_then(|x| x.split(',').next()).and_then(|x| x.trim().parse().ok()).unwrap_or(0);
                            let line = case.text.replace("\r\n", "\n").lines().nth(row.saturating_sub(1)).unwrap_or("").to_string();
                            let e = reasons.entry(key).or_insert((0, line));
                            e.0 += 1;
                        }
                    }
                    println!("{}: accepted {} of {}", name, ok, n);
                    let mut v: Vec<_> = reasons.into_iter().collect();
                    v.sort_by_key(|x| std::cmp::Reverse(x.1 .0));
                    for (k, (c, line)) in v.iter().take(12) {
                        println!("  {:4} {}   e.g. {}", c, k, line);
                    }
                }
                0
            }
            "fidelity" => {
                let n: usize = args.get(2).and_then(|s| s.parse().ok()).unwrap_or(300);
                let cfg = check::CheckCfg {
                    id: "C18",
                    profiles: vec![],
                    tier: "quick".into(),
                    seed: seed_from_env(),
                    scenarios: 0,
                    max_single_faults: 0,
                    multi_fault_plans: 0,
                    kill_plans: 0,
                    permanent_plans: 0,
                    layouts_per_scenario: 1,
                    threads: 1,
                    wall_limit_s: 100,
                    verif_dir: verif_dir(),
                };
                let (n, mm) = check::fidelity(&cfg, n);
                println!("fidelity: {} histories compared, {} mismatches", n, mm.len());
                for m in &mm {
                    println!("{}", m);
                }
                if mm.is_empty() { 0 } else { 2 }
            }
            other => {
                eprintln!("unknown command {}", other);
                2
            }
        })
        .unwrap();
    let code = match handle.join() {
        Ok(c) => c,
        Err(_) => {
            eprintln!("harness error: {:?}", runner::take_panic_pub());
            2
        }
    };
    ExitCode::from(code as u8)
}

fn verif_dir() -> String {
    std::env::var("VERIF_DIR").unwrap_or_else(|_| "/verif".to_string())
}

fn seed_from_env() -> u64 {
    match std::env::var("VERIF_SEED") {
        Ok(s) => s.trim().parse::<u64>().unwrap_or_else(|_| {
            // any string is a seed
            let mut h = prng::Fnv::default();
            h.str(&s);
            h.0
        }),
        Err(_) => check::DEFAULT_SEED,
    }
}

fn profile_of(s: &str) -> Profile {
    match s {
        "print" => Profile::Print,
        "files" => Profile::Files,
        _ => Profile::ControlFlow,
    }
}

/// rbsim gen <profile> <index> : print the scenario the given seed and index generate
fn cmd_gen(args: &[String]) -> i32 {
    let profile = profile_of(args.first().map(|s| s.as_str()).unwrap_or("cf"));
    let index: u64 = args.get(1).and_then(|s| s.parse().ok()).unwrap_or(0);
    let mut rng = prng::Rng::new(prng::mix(&[seed_from_env(), index]));
    let mut h = check::gen_history(profile, &mut rng, &r#gen::Avoid::default());
    if let Some(id) = args.get(3) {
        // same derivation as the check driver (tainted-pool variant: nothing avoided)
        let mut r = prng::Rng::new(prng::mix(&[seed_from_env(), check::fxhash(id), index]));
        let mut rg = r.fork(1);
        h = check::gen_history(profile, &mut rg, &r#gen::Avoid::default());
    }
    let layout = if args.get(2).map(|s| s == "random").unwrap_or(false) {
        emit::Layout::random(&mut rng, true)
    } else {
        emit::Layout::canonical()
    };
    let layouts: Vec<emit::Layout> = h.programs.iter().map(|_| layout.clone()).collect();
    for (i, sc) in h.programs.iter().enumerate() {
        let em = emit::emit(sc, &layout);
        println!("--- program {} ({} statements) stdin={:?}", i, sc.count_stmts(), String::from_utf8_lossy(&sc.stdin));
        print!("{}", em.text.replace('\r', ""));
    }
    println!("--- files: {:?}", h.files.iter().map(|(n, c)| (n, String::from_utf8_lossy(c).to_string())).collect::<Vec<_>>());
    println!("--- triggers: {:?}", case::triggers(&h));
    match case::prepare(&h, &layouts) {
        Ok(prep) => {
            let r = case::run_case(&prep, &h, &[], true, true);
            for (i, s) in r.stats.iter().enumerate() {
                println!("--- run {}: {} instr={} io={} stopped_early={:?}", i, s.outcome, s.instr, s.io_calls, s.stopped_early);
            }
            println!("--- fault sites: {}", r.sites.len());
            for f in &r.found {
                println!("FOUND {} [{:?}] key={} prog={} stmt={:?}: {}", f.property, f.class, f.key, f.prog, f.stmt, f.detail);
            }
        }
        Err((i, o, _)) => println!("--- program {} rejected: {}", i, o.short()),
    }
    0
}

fn cmd_check(args: &[String]) -> i32 {
    let id = args.first().map(|s| s.as_str()).unwrap_or("");
    let tier = args.get(1).map(|s| s.as_str()).unwrap_or("quick").to_string();
    let quick = tier != "thorough";
    let threads = std::env::var("VERIF_THREADS")
        .ok()
        .and_then(|s| s.parse().ok())
        .unwrap_or_else(|| std::thread::available_parallelism().map(|n| n.get()).unwrap_or(8));
    let scale: f64 = std::env::var("VERIF_SCALE")
        .ok()
        .and_then(|s| s.parse().ok())
        .unwrap_or(1.0);
    let (id_static, profiles, scen_q, scen_t): (&'static str, Vec<Profile>, usize, usize) = match id {
        "C05" => ("C05", vec![Profile::ControlFlow], 9000, 150_000),
        // (run-time errors of file and device statements have positions, too)
        "C11" => (
            "C11",
            vec![
                Profile::ControlFlow,
                Profile::ControlFlow,
                Profile::ControlFlow,
                Profile::Files,
                Profile::Print,
            ],
            5000,
            75_000,
        ),
        "C15" => ("C15", vec![Profile::ControlFlow, Profile::ControlFlow, Profile::Print, Profile::Files], 8000, 120_000),
        "C16" => ("C16", vec![Profile::Print], 30000, 400_000),
        "C18" => ("C18", vec![Profile::Files], 12000, 200_000),
        "C08" => ("C08", vec![Profile::ControlFlow, Profile::Print, Profile::Files], 9000, 150_000),
        _ => {
            eprintln!("unknown check {}", id);
            return 2;
        }
    };
    let profiles = match std::env::var("VERIF_PROFILE") {
        Ok(p) => vec![profile_of(&p)],
        Err(_) => profiles,
    };
    let cfg = check::CheckCfg {
        id: id_static,
        profiles,
        tier: tier.clone(),
        seed: seed_from_env(),
        scenarios: ((if quick { scen_q } else { scen_t }) as f64 * scale) as usize,
        max_single_faults: if quick { 30 } else { 120 },
        multi_fault_plans: if quick { 4 } else { 16 },
        permanent_plans: if quick { 1 } else { 4 },
        // crash points only make a difference where a store survives the run
        kill_plans: match (id, quick) {
            ("C18", true) => 4,
            ("C18", false) => 12,
            (_, true) => 1,
            (_, false) => 3,
        },
        layouts_per_scenario: if id == "C11" { 3 } else { 1 },
        threads,
        wall_limit_s: std::env::var("VERIF_WALL_S")
            .ok()
            .and_then(|v| v.parse().ok())
            .unwrap_or(if quick { 100 } else { 1500 }),
        verif_dir: verif_dir(),
    };
    check::run_check(&cfg).exit
}

/// rbsim witnesses : (re)writes the witness replay files of the fixed defects and prints,
/// one per line, name|property|class|key|what|status-now
fn cmd_witnesses() -> i32 {
    let dir = format!("{}/witness", verif_dir());
    let _ = std::fs::create_dir_all(&dir);
    let cfg_seed = 0;
    for w in witness::all() {
        let texts: Vec<String> = w
            .case
            .history
            .programs
            .iter()
            .enumerate()
            .map(|(i, sc)| emit::emit(sc, &w.case.layouts[i.min(w.case.layouts.len() - 1)]).text)
            .collect();
        let rep = check::Replay {
            property: w.property.to_string(),
            class: w.class.to_string(),
            key: w.key.to_string(),
            detail: w.what.to_string(),
            seed: cfg_seed,
            scenario_index: 0,
            case: w.case.clone(),
            texts,
            raw: None,
        };
        let path = format!("{}/{}.json", dir, w.name);
        std::fs::write(&path, serde_json::to_string_pretty(&rep).unwrap()).unwrap();
        let found = check::replay_found(&rep);
        let fails = found.iter().any(|f| {
            f.property == w.property
                && format!("{:?}", f.class) == w.class
                && (w.key.is_empty() || f.key.contains(w.key))
        });
        println!(
            "{}|{}|{}|{}|{}|{}",
            w.name,
            w.property,
            w.class,
            w.key,
            w.what,
            if fails { "FAILS" } else { "passes" }
        );
        for f in &found {
            println!("    found {} [{:?}] {}: {}", f.property, f.class, f.key, f.detail.chars().take(160).collect::<String>());
        }
    }
    0
}

/// rbsim replay <file> : re-run a replay file; exit 1 when the recorded violation reproduces
fn cmd_replay(args: &[String]) -> i32 {
    let path = match args.first() {
        Some(p) => p,
        None => return 2,
    };
    let rep = match check::load_replay(path) {
        Some(r) => r,
        None => {
            eprintln!("cannot read replay {}", path);
            return 2;
        }
    };
    println!("replay {}: property={} class={} seed={} scenario_index={}", path, rep.property, rep.class, rep.seed, rep.scenario_index);
    for (i, t) in rep.texts.iter().enumerate() {
        println!("--- program {}", i);
        print!("{}", t.replace('\r', ""));
    }
    println!("--- fault plan: {}", serde_json::to_string(&rep.case.plan).unwrap());
    // the run may be one that never comes back: it gets the watchdog's time, not more
    let (tx, rx) = std::sync::mpsc::channel();
    {
        let rep2 = rep.clone();
        std::thread::Builder::new()
            .stack_size(256 << 20)
            .spawn(move || {
                let _ = tx.send(check::replay_found(&rep2));
            })
            .unwrap();
    }
    let found = match rx.recv_timeout(watch::limit()) {
        Ok(f) => f,
        Err(_) => {
            println!(
                "FOUND {} [{}] key=hang: the run never came back within {} s",
                rep.property,
                rep.class,
                watch::limit().as_secs()
            );
            if rep.key == "hang" {
                println!("VIOLATION property={} replay={}", rep.property, path);
                std::process::exit(1);
            }
            println!("not reproduced (the run hangs instead)");
            std::process::exit(2);
        }
    };
    let mut hit = false;
    for f in &found {
        println!("FOUND {} [{:?}] key={}: {}", f.property, f.class, f.key, f.detail);
        if f.property == rep.property && format!("{:?}", f.class) == rep.class {
            hit = true;
        }
    }
    if hit {
        println!("VIOLATION property={} replay={}", rep.property, path);
        1
    } else {
        println!("not reproduced");
        0
    }
}

/// Determinism self-test: digests of N scenarios (fault-free + a few fault plans), printed
/// one per line; the caller diffs two processes / worker counts.
fn cmd_selftest(args: &[String]) -> i32 {
    let n: usize = args.first().and_then(|s| s.parse().ok()).unwrap_or(200);
    let seed = seed_from_env();
    for profile in [Profile::ControlFlow, Profile::Print, Profile::Files] {
        for i in 0..n {
            let mut rng = prng::Rng::new(prng::mix(&[seed, i as u64, profile as u64]));
            let h = check::gen_history(profile, &mut rng, &r#gen::Avoid::default());
            let layouts: Vec<emit::Layout> = h.programs.iter().map(|_| emit::Layout::random(&mut rng, true)).collect();
            match case::prepare(&h, &layouts) {
                Ok(prep) => {
                    let r = case::run_case(&prep, &h, &[], true, true);
                    let d: Vec<String> = r.stats.iter().map(|s| format!("{:016x}", s.digest)).collect();
                    // one fault plan derived from the sites
                    let mut fd = String::new();
                    if let Some((pi, s)) = r.sites.get(rng.below(r.sites.len().max(1))).cloned() {
                        let f = world::Fault {
                            addr: world::FaultAddr::Stmt { stmt: s.stmt, occ: s.occ, ordinal: s.ordinal },
                            class: s.class,
                            seam: s.seam,
                            kind: match s.class {
                                world::OpClass::Write => world::FaultKind::Error(world::IoKind::StorageFull),
                                world::OpClass::Read => world::FaultKind::Interrupted,
                                _ => world::FaultKind::Error(world::IoKind::Other),
                            },
                        };
                        let plan = vec![case::PlanItem { prog: pi, fault: case::FaultSer::from_fault(&f) }];
                        let r2 = case::run_case(&prep, &h, &plan, false, true);
                        fd = r2.stats.iter().map(|s| format!("{:016x}", s.digest)).collect::<Vec<_>>().join(",");
                    }
                    println!("{:?} {} {} | {} | found={}", profile, i, d.join(","), fd, r.found.len());
                }
                Err((pi, o, _)) => println!("{:?} {} rejected prog {} {}", profile, i, pi, o.short()),
            }
        }
    }
    0
}

/// rbsim run <file.bas> [--stdin <file>] [--dump] : run a BASIC file in the simulated world
fn cmd_run(args: &[String]) -> i32 {
    let mut file = None;
    let mut stdin: Vec<u8> = vec![];
    let mut dump = false;
    let mut i = 0;
    while i < args.len() {
        match args[i].as_str() {
            "--stdin" => {
                i += 1;
                stdin = std::fs::read(&args[i]).expect("stdin file");
            }
            "--dump" => dump = true,
            f => file = Some(f.to_string()),
        }
        i += 1;
    }
    let text = std::fs::read_to_string(file.expect("file")).expect("read program");
    let program = match runner::parse(&text) {
        Ok(p) => p,
        Err(o) => {
            println!("outcome: {}", o.short());
            return 0;
        }
    };
    if dump {
        use rusty_basic::instruction_generator::{generate_instructions, unwrap_linter_context};
        use rusty_common::HasPos;
        if let Ok((p, ctx)) = rusty_linter::core::lint(program.clone()) {
            let (names, _) = unwrap_linter_context(ctx);
            let r = generate_instructions(p, names);
            for (pc, ins) in r.instructions.iter().enumerate() {
                let mark = if r.statement_addresses.contains(&pc) { "*" } else { " " };
                println!(
                    "{:4}{} {:>3}:{:<3} {:?}",
                    pc,
                    mark,
                    ins.pos().row() as i64 as i32,
                    ins.pos().col() as i64 as i32,
                    ins.element
                );
            }
        }
    }
    let w = world::World::new(vec![], stdin, world::FsStore::default(), vec![]).shared();
    let r = runner::run_program(&program, &w, 1_000_000);
    let w = w.borrow();
    println!("outcome: {}", r.outcome.short());
    println!("screen: {:?}", String::from_utf8_lossy(&w.screen.bytes));
    println!("lpt1: {:?}", String::from_utf8_lossy(&w.lpt1.bytes));
    for (k, v) in w.fs.snapshot() {
        println!("file {}: {:?}", k, String::from_utf8_lossy(&v));
    }
    println!("instr: {} events: {} digest: {:016x}", w.instr, w.log.len(), w.digest());
    for v in &r.monitor.violations {
        println!("monitor {} pc {}: {}", v.kind, v.pc, v.detail);
    }
    0
}
