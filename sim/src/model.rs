//! Reference model, run as an online checker against the observations of a
//! real run (device byte streams with statement attribution, statement start
//! events, error events, fired faults, final store, outcome).
//!
//! It is written from the property statements (DESIGN.md Appendix D), not from
//! the implementation: an AST interpreter over the scenario DSL with
//!   M-VM  control flow, handlers, RESUME, GOSUB, calls, source rows
//!   M-DEV item rendering and per-device columns
//!   M-FS  name -> bytes store, handle table, cursors, record buffers

use std::collections::{BTreeMap, HashMap};

use crate::dsl::*;
use crate::emit::Emitted;
use crate::runner::Outcome;
use crate::world::{Chunk, EventKind, FaultKind, OpClass, SeamKind, World};

#[derive(Clone, Copy, Debug, PartialEq, Eq, Hash, PartialOrd, Ord)]
pub enum Class {
    /// statement order, jump targets, RESUME targets, GOSUB/RETURN, loop state
    ControlFlow,
    /// value of ERR / error code
    ErrValue,
    /// value of a variable after a recovery / call
    VarValue,
    /// bytes of a PRINT statement (numbers, strings, zones, line ends, USING)
    Layout,
    /// what a fault may and may not do on a print device
    DeviceFault,
    /// file contents, values read back, EOF
    FileData,
    /// handle protocol: error codes for misuse, handle reuse
    FileProtocol,
    /// console/file parity of INPUT and LINE INPUT
    InputParity,
    /// position / call-site rows of a run-time error
    Position,
    /// bounded liveness
    Liveness,
    /// internal failure (panic, unresolved label, ...)
    Internal,
    /// VM stack discipline / structural invariant of the instruction list
    Stack,
}

impl Class {
    pub fn property(&self) -> &'static str {
        match self {
            Class::ControlFlow | Class::ErrValue | Class::VarValue | Class::Liveness => "C05",
            Class::Layout | Class::DeviceFault => "C16",
            Class::FileData | Class::FileProtocol | Class::InputParity => "C18",
            Class::Position => "C11",
            Class::Internal => "C08",
            Class::Stack => "C15",
        }
    }
}

#[derive(Clone, Debug, PartialEq, Eq)]
pub struct Divergence {
    pub class: Class,
    pub stmt: Option<StmtId>,
    pub detail: String,
}

#[derive(Clone, Debug, Default)]
pub struct ModelReport {
    pub divergence: Option<Divergence>,
    /// checking stopped early at a point the contract leaves open (see DESIGN §3.5)
    pub stopped_early: Option<String>,
    pub statements: u64,
    pub probes: BTreeMap<&'static str, u64>,
    pub handled_errors: u64,
    pub resumes: u64,
    pub max_call_depth: usize,
}

#[derive(Clone, Copy, Debug, PartialEq, Eq, Hash, PartialOrd, Ord)]
pub enum DevKey {
    Screen,
    Lpt1,
    Inst(u32),
}

#[derive(Clone, Debug, PartialEq)]
enum Val {
    I(i64),
    S(String),
    F(f64),
}

#[derive(Clone, Copy, Debug, PartialEq, Eq)]
enum Tag {
    Literal,
    Number,
    Pad,
    Newline,
    Var,
    Err,
    FileValue,
    Using,
}

/// One piece of expected output with alternatives (all rendered as bytes).
#[derive(Clone, Debug)]
struct Seg {
    alts: Vec<Vec<u8>>,
    tag: Tag,
}

#[derive(Clone, Debug, Default)]
struct DevState {
    pos: usize,
    chunk_idx: usize,
    /// column, None = unknown after a faulted statement
    col: Option<usize>,
}

#[derive(Clone, Debug)]
struct Handle {
    mode: Mode,
    name: String,
    inst: u32,
    cursor: usize,
    cursor_known: bool,
    /// write position of an OUTPUT handle
    wpos: usize,
    /// length of the file when this handle was opened
    len_at_open: usize,
    rec_len: usize,
    field_lists: Vec<Vec<(usize, String)>>,
    current_fields: Option<usize>,
    /// records PUT through this file (also before a CLOSE and a second OPEN with the
    /// same record length): number -> bytes
    records: BTreeMap<i64, Vec<u8>>,
    /// the file held records the model does not know (it existed before the program, or
    /// was written under another record length)
    prior_unknown: bool,
    /// variables read from file keep a provenance tag for classification
    dev: DevState,
}

#[derive(Clone, Debug, Default)]
struct Frame {
    ints: HashMap<String, i64>,
    strs: HashMap<String, String>,
    /// names of variables whose value came from a file / console read
    from_input: std::collections::HashSet<String>,
    gosub_depth: u32,
    proc_idx: Option<usize>,
}

#[derive(Clone, Debug, PartialEq)]
enum HandlerMode {
    Off,
    Goto(String),
    ResumeNext,
}

#[derive(Debug)]
enum Flow {
    Next,
    Goto(String),
    Return(Option<String>),
    ExitProc,
    Resume(ResumeKind),
    /// RESUME label for an error raised inside a subprogram: all active calls are
    /// abandoned and the main module continues at the label
    UnwindGoto(String),
    End,
    /// unhandled error: code (None = any defined code), failing statement, call sites innermost first
    Abort(Option<i32>, StmtId, Vec<u32>),
}

/// Why execution of the model stops before the program ends.
#[derive(Debug)]
enum Stop {
    Diverged(Divergence),
    Early(String),
    Flow(Flow),
    /// an expression failed with this BASIC error (only `Expr::Quot`, in block headers)
    ExprFail(i32),
}

/// What the evaluation of a block header line came to.
enum HeaderVal {
    V(i64),
    /// the line failed and the handler resumed with the statement after it: the body
    /// of that line (RESUME NEXT / ON ERROR RESUME NEXT)
    Enter,
    Flow(Flow),
}

/// A statement failed with a BASIC error.
#[derive(Debug, Clone)]
struct Failure {
    /// None: any defined non-zero code is acceptable; the observed one is used
    code: Option<i32>,
}

type R<T> = Result<T, Stop>;

pub struct Model<'a> {
    sc: &'a Scenario,
    em: &'a Emitted,
    w: &'a World,
    outcome: &'a Outcome,
    // observations, indexed
    stmt_events: Vec<(StmtId, u32)>,
    stmt_ev_idx: usize,
    /// (stmt, occ) -> (code, row, col)
    errors: HashMap<(StmtId, u32), Vec<(i32, u32, u32)>>,
    /// (stmt, occ) -> fired faults
    fired: HashMap<(StmtId, u32), Vec<(OpClass, SeamKind, FaultKind, usize)>>,
    // state
    occ: HashMap<StmtId, u32>,
    frames: Vec<Frame>,
    callsites: Vec<u32>,
    /// row of the source line whose expression is being evaluated
    row_override: Option<u32>,
    handler: HandlerMode,
    in_handler: u32,
    err: i64,
    screen: DevState,
    lpt1: DevState,
    handles: BTreeMap<i32, Handle>,
    store: BTreeMap<String, Vec<u8>>,
    dirs: Vec<String>,
    opens: u32,
    stdin: Vec<u8>,
    stdin_pos: usize,
    stdin_known: bool,
    random_names: std::collections::BTreeSet<String>,
    /// RANDOM files closed by this program: name -> (record length, records, unknown rest)
    random_saved: HashMap<String, (usize, BTreeMap<i64, Vec<u8>>, bool)>,
    static_frames: HashMap<usize, Frame>,
    pub report: ModelReport,
    step_cap: u64,
    pending_errors_used: HashMap<(StmtId, u32), usize>,
    /// the simple statement executed last: (id, execution count, is a file statement)
    last_simple: Option<(StmtId, u32, bool)>,
    /// header line of the block statement whose failure is being handled
    header_part: Option<usize>,
    /// a handler was left by RETURN: judge the next statement start, then stop
    stop_after_next: bool,
    /// tag of the segment matched last (classification of what follows a file value)
    prev_seg_tag: Option<Tag>,
    /// the unhandled error that ends the program was raised by this header line
    abort_header_part: Option<(StmtId, usize)>,
}

const STEP_CAP: u64 = 20_000;
/// early-stop reason of a run that was killed at a crash point (the crash checks follow)
pub const KILLED: &str = "run was killed at a crash point";
const MAX_DEPTH: usize = 1300;

impl<'a> Model<'a> {
    pub fn new(
        sc: &'a Scenario,
        em: &'a Emitted,
        w: &'a World,
        outcome: &'a Outcome,
        initial_store: BTreeMap<String, Vec<u8>>,
        dirs: Vec<String>,
    ) -> Self {
        let mut stmt_events = vec![];
        let mut errors: HashMap<(StmtId, u32), Vec<(i32, u32, u32)>> = HashMap::new();
        for ev in &w.log {
            match &ev.kind {
                EventKind::Stmt { stmt, occ } => stmt_events.push((*stmt, *occ)),
                EventKind::Error { code, row, col, .. } => {
                    if let Some(k) = ev.stmt {
                        errors.entry(k).or_default().push((*code, *row, *col));
                    } else {
                        errors.entry((u32::MAX, 0)).or_default().push((*code, *row, *col));
                    }
                }
                _ => {}
            }
        }
        let mut fired: HashMap<(StmtId, u32), Vec<(OpClass, SeamKind, FaultKind, usize)>> =
            HashMap::new();
        for f in &w.fired {
            let key = f.stmt.unwrap_or((u32::MAX, 0));
            fired
                .entry(key)
                .or_default()
                .push((f.fault.class, f.fault.seam, f.fault.kind, f.stdin_pos));
        }
        Self {
            sc,
            em,
            w,
            outcome,
            stmt_events,
            stmt_ev_idx: 0,
            errors,
            fired,
            occ: HashMap::new(),
            frames: vec![Frame::default()],
            callsites: vec![],
            row_override: None,
            handler: HandlerMode::Off,
            in_handler: 0,
            err: 0,
            screen: DevState {
                col: Some(0),
                ..Default::default()
            },
            lpt1: DevState {
                col: Some(0),
                ..Default::default()
            },
            handles: BTreeMap::new(),
            store: initial_store,
            dirs,
            opens: 0,
            stdin: sc.stdin.clone(),
            stdin_pos: 0,
            stdin_known: true,
            random_names: Default::default(),
            random_saved: HashMap::new(),
            static_frames: HashMap::new(),
            report: ModelReport::default(),
            step_cap: STEP_CAP,
            pending_errors_used: HashMap::new(),
            last_simple: None,
            header_part: None,
            stop_after_next: false,
            prev_seg_tag: None,
            abort_header_part: None,
        }
    }

    fn probe(&mut self, name: &'static str) {
        *self.report.probes.entry(name).or_insert(0) += 1;
    }

    fn diverge<T>(&self, class: Class, stmt: Option<StmtId>, detail: String) -> R<T> {
        Err(Stop::Diverged(Divergence {
            class,
            stmt,
            detail,
        }))
    }

    // ------------------------------------------------------------------
    // entry point
    // ------------------------------------------------------------------

    /// Runs the model to the end and returns the final model store.
    pub fn run(mut self) -> (ModelReport, BTreeMap<String, Vec<u8>>) {
        // faults / errors outside any statement cannot be judged
        if self.fired.contains_key(&(u32::MAX, 0)) {
            self.report.stopped_early = Some("fault fired outside a DSL statement".into());
            let store = self.store.clone();
            return (self.report, store);
        }
        let r = self.run_main();
        match r {
            Ok(()) => {}
            Err(Stop::Diverged(d)) => self.report.divergence = Some(d),
            Err(Stop::Early(why)) => {
                if why == KILLED {
                    self.probe("killed_at_crash_point");
                    if let Err(Stop::Diverged(d)) = self.crash_checks() {
                        self.report.divergence = Some(d);
                    }
                }
                self.report.stopped_early = Some(why)
            }
            Err(Stop::Flow(f)) => {
                self.report.stopped_early = Some(format!("model left in flow {:?}", f));
            }
            Err(Stop::ExprFail(_)) => {
                self.report.stopped_early =
                    Some("failing expression in a position the model does not cover".into());
            }
        }
        let store = self.store.clone();
        (self.report, store)
    }

    /// The run was killed (a crash: no CLOSE, no drop, no flush ran afterwards). Every
    /// statement before the one under way was matched completely. For every file that
    /// statement does not touch: a file that is not open for writing at the crash point
    /// (it was closed before, or never opened) holds exactly the bytes of the completed
    /// statements; a file that is still open for writing holds a prefix of them (the
    /// property promises its text "once closed"). RANDOM files are judged through GET only.
    fn crash_checks(&mut self) -> R<()> {
        let actual = self.w.fs.snapshot();
        let mut loose: std::collections::BTreeSet<String> = Default::default();
        if let Some((id, _, _)) = self.last_simple {
            let mut kind: Option<&StmtKind> = None;
            self.sc.for_each(&mut |st| {
                if st.id == id {
                    kind = Some(&st.kind);
                }
            });
            match kind {
                Some(StmtKind::Open { name, .. }) | Some(StmtKind::Kill(name)) => {
                    loose.insert(name.clone());
                }
                Some(StmtKind::NameAs(a, b)) => {
                    loose.insert(a.clone());
                    loose.insert(b.clone());
                }
                Some(StmtKind::Print {
                    dev: Dev::File(h), ..
                })
                | Some(StmtKind::Put { handle: h, .. }) => {
                    if let Some(hd) = self.handles.get(h) {
                        loose.insert(hd.name.clone());
                    }
                }
                _ => {}
            }
        }
        let names: std::collections::BTreeSet<&String> =
            actual.keys().chain(self.store.keys()).collect();
        let mut detail = None;
        let mut closed_checked = 0u64;
        let mut open_checked = 0u64;
        for n in names {
            if self.random_names.contains(n) || loose.contains(n) {
                continue;
            }
            let is_open_for_writing = self
                .handles
                .values()
                .any(|h| &h.name == n && (h.mode == Mode::Output || h.mode == Mode::Append));
            if is_open_for_writing {
                open_checked += 1;
            } else {
                closed_checked += 1;
            }
            let a = actual.get(n);
            let m = self.store.get(n);
            // A file that is still open for writing is not covered by "once closed, read
            // back unchanged": text of completed statements may not have reached the disk
            // yet (an implementation may buffer). What survives must still be a prefix of
            // what was written - old or new, never garbage.
            let acceptable = if is_open_for_writing {
                match (a, m) {
                    (Some(a), Some(m)) => m.starts_with(a),
                    (None, _) => true,
                    (Some(a), None) => a.is_empty(),
                }
            } else {
                a == m
            };
            if !acceptable && detail.is_none() {
                detail = Some(format!(
                    "after a crash at instruction {} file {:?} ({}) holds {:?}; the statements completed before the crash point wrote {:?}",
                    self.w.instr,
                    n,
                    if is_open_for_writing {
                        "open for writing, not touched by the statement under way"
                    } else {
                        "not open for writing at the crash point"
                    },
                    a.map(|x| String::from_utf8_lossy(x).to_string()),
                    m.map(|x| String::from_utf8_lossy(x).to_string())
                ));
            }
        }
        *self.report.probes.entry("crash_files_not_open_for_writing_checked").or_insert(0) += closed_checked;
        *self.report.probes.entry("crash_files_open_for_writing_checked").or_insert(0) += open_checked;
        match detail {
            Some(d) => self.diverge(Class::FileData, self.last_simple.map(|x| x.0), d),
            None => Ok(()),
        }
    }

    fn run_main(&mut self) -> R<()> {
        let main: &'a [Stmt] = &self.sc.main;
        let flow = self.exec_list(main, 0, true)?;
        // close all files (process end)
        self.handles.clear();
        match flow {
            Flow::Next | Flow::End => self.expect_outcome_ok(),
            Flow::Abort(code, stmt, sites) => self.expect_outcome_error(code, stmt, &sites),
            Flow::Goto(l) | Flow::UnwindGoto(l) => {
                Err(Stop::Early(format!("GOTO {} left the main module", l)))
            }
            other => Err(Stop::Early(format!("main module ended in {:?}", other))),
        }
    }

    fn final_checks(&mut self) -> R<()> {
        // nothing more may have been started or written by the implementation
        if self.stmt_ev_idx < self.stmt_events.len() {
            let (s, o) = self.stmt_events[self.stmt_ev_idx];
            return self.diverge(
                Class::ControlFlow,
                Some(s),
                format!(
                    "implementation went on to execute statement {}#{} after the model's program ended",
                    s, o
                ),
            );
        }
        if self.screen.pos < self.w.screen.bytes.len() && self.screen.col.is_some() {
            return self.diverge(
                Class::Layout,
                None,
                format!(
                    "unexpected extra bytes on the screen: {:?}",
                    String::from_utf8_lossy(&self.w.screen.bytes[self.screen.pos..])
                ),
            );
        }
        if self.lpt1.pos < self.w.lpt1.bytes.len() && self.lpt1.col.is_some() {
            return self.diverge(
                Class::Layout,
                None,
                format!(
                    "unexpected extra bytes on LPT1: {:?}",
                    String::from_utf8_lossy(&self.w.lpt1.bytes[self.lpt1.pos..])
                ),
            );
        }
        Ok(())
    }

    fn expect_outcome_ok(&mut self) -> R<()> {
        match self.outcome {
            Outcome::Ok => self.final_checks(),
            Outcome::Killed => Err(Stop::Early(KILLED.into())),
            Outcome::Budget => self.diverge(
                Class::Liveness,
                None,
                format!(
                    "program terminates in the model after {} statements but the run exhausted its instruction budget",
                    self.report.statements
                ),
            ),
            Outcome::Panic { .. } => {
                // the internal failure itself is reported by the C08 oracle; statements
                // executed after the model's program had ended are a control-flow matter
                if self.stmt_ev_idx < self.stmt_events.len() {
                    let (s, o) = self.stmt_events[self.stmt_ev_idx];
                    return self.diverge(
                        Class::ControlFlow,
                        Some(s),
                        format!(
                            "implementation went on to execute statement {}#{} after the model's program ended (and then failed internally)",
                            s, o
                        ),
                    );
                }
                Ok(())
            }
            other => {
                if let Some(d) = self.unexpected_error_of_last() {
                    return Err(Stop::Diverged(d));
                }
                self.diverge(
                    Class::ControlFlow,
                    None,
                    format!(
                        "model: normal termination; implementation: {}",
                        other.short()
                    ),
                )
            }
        }
    }

    fn expect_outcome_error(&mut self, code: Option<i32>, stmt: StmtId, sites: &[u32]) -> R<()> {
        match self.outcome {
            Outcome::Error {
                code: got,
                positions,
                ..
            } => {
                if let Some(c) = code {
                    if c != *got {
                        return self.diverge(
                            Class::ErrValue,
                            Some(stmt),
                            format!("program must end with error {}, ended with {}", c, got),
                        );
                    }
                } else if *got <= 0 {
                    return self.diverge(
                        Class::ErrValue,
                        Some(stmt),
                        format!("program ended with undefined error code {}", got),
                    );
                }
                self.final_checks()?;
                // positions: failing statement, then call sites innermost first
                let mut want_rows: Vec<u32> = vec![];
                let span = self.span_of(stmt);
                if let Some((row, _, _)) = span {
                    want_rows.push(row);
                }
                for s in sites {
                    want_rows.push(*s);
                }
                let got_rows: Vec<u32> = positions.iter().map(|p| p.0).collect();
                if got_rows != want_rows {
                    return self.diverge(
                        Class::Position,
                        Some(stmt),
                        format!(
                            "error positions: rows {:?} expected (failing statement, then call sites innermost first), got {:?}",
                            want_rows, positions
                        ),
                    );
                }
                if let (Some((_, c0, c1)), Some(p)) = (span, positions.first()) {
                    if p.1 < c0 || p.1 > c1 {
                        return self.diverge(
                            Class::Position,
                            Some(stmt),
                            format!(
                                "error column {} outside the failing statement's text (columns {}..={}) on row {}",
                                p.1, c0, c1, p.0
                            ),
                        );
                    }
                }
                // call-site columns must lie on the calling statement's row: inside the row at least
                Ok(())
            }
            Outcome::Panic { .. } => Ok(()),
            Outcome::Killed => Err(Stop::Early(KILLED.into())),
            Outcome::Budget => self.diverge(
                Class::Liveness,
                Some(stmt),
                "program ends with an error in the model but the run exhausted its instruction budget".into(),
            ),
            other => self.diverge(
                Class::ControlFlow,
                Some(stmt),
                format!(
                    "model: program ends with error {:?} at statement {}; implementation: {}",
                    code,
                    stmt,
                    other.short()
                ),
            ),
        }
    }

    /// Text that an APPEND writer has added to `name` and not closed yet: the property
    /// promises it to readers "once closed"; until then another handle may or may not see it
    /// (an implementation may buffer).
    fn has_unclosed_text(&self, name: &str) -> bool {
        let len = self.store.get(name).map(|v| v.len()).unwrap_or(0);
        self.handles
            .values()
            .any(|h| h.name == name && h.mode == Mode::Append && len > h.len_at_open)
    }

    fn span_of(&self, stmt: StmtId) -> Option<(u32, u32, u32)> {
        if let Some(k) = self.header_part {
            if let Some(h) = self.em.header_spans.get(&(stmt, k)) {
                return Some(*h);
            }
        }
        if let Some((id, k)) = self.abort_header_part {
            if id == stmt {
                if let Some(h) = self.em.header_spans.get(&(stmt, k)) {
                    return Some(*h);
                }
            }
        }
        self.em
            .spans
            .iter()
            .find(|s| s.stmt == stmt)
            .map(|s| (s.row, s.col_start, s.col_end))
    }

    /// Evaluates the expression of header line `part` of block statement `s` (0 = its
    /// first line). A failure is the failure of that line: RESUME evaluates it again,
    /// RESUME NEXT continues with the statement after the line, i.e. its body.
    fn eval_header(&mut self, s: &'a Stmt, part: usize, e: &Expr) -> R<HeaderVal> {
        loop {
            self.row_override = if part > 0 {
                self.em.extra_rows.get(&(s.id, part)).copied()
            } else {
                None
            };
            let r = self.eval_int(e, s.id);
            self.row_override = None;
            match r {
                Ok(v) => return Ok(HeaderVal::V(v)),
                Err(Stop::ExprFail(code)) => {
                    self.header_part = Some(part);
                    self.last_simple = None;
                    let rec = self.handle_failure(s, Failure { code: Some(code) });
                    self.header_part = None;
                    match rec? {
                        Recovery::Retry => {
                            self.probe("resume_evaluates_block_header_again");
                            continue;
                        }
                        Recovery::Skip => {
                            self.probe("resume_next_after_block_header");
                            return Ok(HeaderVal::Enter);
                        }
                        Recovery::Flow(f) => {
                            if let Flow::Abort(..) = f {
                                // the report names this header line
                                self.abort_header_part = Some((s.id, part));
                            }
                            return Ok(HeaderVal::Flow(f));
                        }
                    }
                }
                Err(o) => return Err(o),
            }
        }
    }

    // ------------------------------------------------------------------
    // statement lists
    // ------------------------------------------------------------------

    fn find_label(list: &[Stmt], l: &str) -> Option<usize> {
        list.iter().position(|s| match &s.kind {
            StmtKind::Label(x) => x.eq_ignore_ascii_case(l),
            _ => false,
        })
    }

    /// Executes `list` from index `start`. `top` = this is the top-level list of a
    /// procedure or of the main module (labels live there).
    fn exec_list(&mut self, list: &'a [Stmt], start: usize, top: bool) -> R<Flow> {
        let mut i = start;
        loop {
            if i >= list.len() {
                return Ok(Flow::Next);
            }
            let s = &list[i];
            let r = self.exec_stmt(s);
            let flow = match r {
                Ok(Ok(f)) => f,
                Ok(Err(failure)) => match self.handle_failure(s, failure)? {
                    Recovery::Retry => {
                        self.probe("resume_retry");
                        continue;
                    }
                    Recovery::Skip => {
                        if i + 1 == list.len() {
                            self.probe("resume_next_after_last_statement_of_block");
                        }
                        i += 1;
                        continue;
                    }
                    Recovery::Flow(f) => f,
                },
                // END or an unhandled error inside a FUNCTION called from an expression
                Err(Stop::Flow(f)) => f,
                Err(Stop::ExprFail(_)) => {
                    return Err(Stop::Early(
                        "failing expression in a position the model does not cover".into(),
                    ));
                }
                Err(stop) => return Err(stop),
            };
            match flow {
                Flow::Next => i += 1,
                Flow::UnwindGoto(l) => {
                    // propagate until all subprogram frames are gone, then it is a GOTO
                    if self.frames.len() > 1 {
                        return Ok(Flow::UnwindGoto(l));
                    }
                    if let Some(j) = Self::find_label(list, &l) {
                        i = j;
                        continue;
                    }
                    return Ok(Flow::UnwindGoto(l));
                }
                Flow::Goto(l) => {
                    // the label may be in this very list (also inside a block: a jump
                    // within a loop body); otherwise it is further out
                    let _ = top;
                    if let Some(j) = Self::find_label(list, &l) {
                        i = j;
                        continue;
                    }
                    return Ok(Flow::Goto(l));
                }
                other => return Ok(other),
            }
        }
    }

    fn current_top_list(&self) -> &'a [Stmt] {
        match self.frames.last().unwrap().proc_idx {
            None => &self.sc.main,
            Some(i) => &self.sc.procs[i].body,
        }
    }

    fn handle_failure(&mut self, s: &'a Stmt, failure: Failure) -> R<Recovery> {
        if self.stop_after_next {
            return Err(Stop::Early(
                "a handler was left by RETURN instead of RESUME".into(),
            ));
        }
        let occ = *self.occ.get(&s.id).unwrap_or(&0);
        // the implementation must have raised an error in this very statement execution
        let used = *self.pending_errors_used.get(&(s.id, occ)).unwrap_or(&0);
        let observed = self
            .errors
            .get(&(s.id, occ))
            .and_then(|v| v.get(used))
            .copied();
        let code: i32 = match (failure.code, observed) {
            (Some(c), Some((got, _, _))) => {
                if got != c {
                    // the codes of file statements are the file protocol's business
                    let file_stmt = matches!(
                        &s.kind,
                        StmtKind::Open { .. }
                            | StmtKind::Close(_)
                            | StmtKind::InputFile { .. }
                            | StmtKind::LineInputFile { .. }
                            | StmtKind::InputCon { .. }
                            | StmtKind::LineInputCon { .. }
                            | StmtKind::Kill(_)
                            | StmtKind::NameAs(..)
                            | StmtKind::Put { .. }
                            | StmtKind::Get { .. }
                            | StmtKind::Field { .. }
                            | StmtKind::Print {
                                dev: Dev::File(_),
                                ..
                            }
                    );
                    return self.diverge(
                        if file_stmt {
                            Class::FileProtocol
                        } else {
                            Class::ErrValue
                        },
                        Some(s.id),
                        format!(
                            "statement {} ({}) must fail with error {}, implementation raised {}",
                            s.id,
                            s.kind.name(),
                            c,
                            got
                        ),
                    );
                }
                c
            }
            (None, Some((got, _, _))) => {
                if got <= 0 {
                    return self.diverge(
                        Class::Internal,
                        Some(s.id),
                        format!("error raised by statement {} has no defined code", s.id),
                    );
                }
                got
            }
            (c, None) => {
                // no error observed: either the outcome is an internal failure (reported
                // elsewhere) or the implementation went on as if nothing had happened
                if matches!(self.outcome, Outcome::Killed) {
                    return Err(Stop::Early(KILLED.into()));
                }
                if matches!(self.outcome, Outcome::Panic { .. } | Outcome::Budget) {
                    return Err(Stop::Early(
                        "run ended abnormally before the expected error".into(),
                    ));
                }
                let class = match &s.kind {
                    StmtKind::Open { .. }
                    | StmtKind::Close(_)
                    | StmtKind::InputFile { .. }
                    | StmtKind::LineInputFile { .. }
                    | StmtKind::Kill(_)
                    | StmtKind::NameAs(..)
                    | StmtKind::Put { .. }
                    | StmtKind::Get { .. }
                    | StmtKind::Field { .. }
                    | StmtKind::Print { dev: Dev::File(_), .. } => Class::FileProtocol,
                    _ => Class::ControlFlow,
                };
                return self.diverge(
                    class,
                    Some(s.id),
                    format!(
                        "statement {}#{} ({}) must fail with error {:?}; the implementation raised no error there",
                        s.id,
                        occ,
                        s.kind.name(),
                        c
                    ),
                );
            }
        };
        self.pending_errors_used.insert((s.id, occ), used + 1);
        // position of the error (handled or not): row of the statement, column inside it
        if let (Some((row, c0, c1)), Some((_, erow, ecol))) = (self.span_of(s.id), observed) {
            if erow != row || ecol < c0 || ecol > c1 {
                return self.diverge(
                    Class::Position,
                    Some(s.id),
                    format!(
                        "error of statement {} reported at {}:{}, statement text is at row {} columns {}..={}",
                        s.id, erow, ecol, row, c0, c1
                    ),
                );
            }
        }
        self.report.handled_errors += 1;
        match self.handler.clone() {
            HandlerMode::Off => {
                let mut sites = self.callsites.clone();
                sites.reverse();
                Ok(Recovery::Flow(Flow::Abort(Some(code), s.id, sites)))
            }
            HandlerMode::ResumeNext => {
                self.err = code as i64;
                self.probe("on_error_resume_next_skip");
                Ok(Recovery::Skip)
            }
            HandlerMode::Goto(h) => {
                if self.in_handler > 0 {
                    // The property does not say whether an error inside a running handler
                    // ends the program. If the implementation did end it right here (no
                    // statement was started afterwards), the diagnostic is C11's business:
                    // it names this statement and the calls that are still active.
                    if self.stmt_ev_idx == self.stmt_events.len()
                        && matches!(self.outcome, Outcome::Error { .. })
                    {
                        self.probe("error_inside_handler_ended_the_program");
                        let mut sites = self.callsites.clone();
                        sites.reverse();
                        return Ok(Recovery::Flow(Flow::Abort(None, s.id, sites)));
                    }
                    return Err(Stop::Early("error inside an error handler".into()));
                }
                self.err = code as i64;
                self.in_handler += 1;
                if self.frames.len() > 1 {
                    self.probe("error_in_subprogram_handled_in_main");
                }
                // the handler runs in the main module's scope
                let saved_frames = std::mem::take(&mut self.frames);
                let mut global = saved_frames[0].clone();
                // the GOSUBs of the interrupted code are the handler's to RETURN from when
                // the error was raised in the main module itself (no call in between)
                let interrupted_at_main = saved_frames.len() == 1;
                let pending_gosubs = saved_frames[0].gosub_depth;
                global.gosub_depth = if interrupted_at_main { pending_gosubs } else { 0 };
                self.frames = vec![global];
                let main: &'a [Stmt] = &self.sc.main;
                let idx = match Self::find_label(main, &h) {
                    Some(i) => i,
                    None => return Err(Stop::Early("handler label not found".into())),
                };
                let flow = self.exec_list(main, idx + 1, true);
                // write back globals, restore frames
                let global = self.frames.pop().unwrap();
                self.frames = saved_frames;
                let gd = self.frames[0].gosub_depth;
                self.frames[0] = global;
                self.frames[0].gosub_depth = gd;
                self.in_handler -= 1;
                let flow = flow?;
                match flow {
                    Flow::Resume(kind) => {
                        self.err = 0;
                        self.report.resumes += 1;
                        match kind {
                            ResumeKind::Bare => Ok(Recovery::Retry),
                            ResumeKind::Next => Ok(Recovery::Skip),
                            ResumeKind::Label(l) => {
                                self.probe("resume_label");
                                if self.frames.len() > 1 {
                                    self.probe("resume_label_out_of_subprogram");
                                    Ok(Recovery::Flow(Flow::UnwindGoto(l)))
                                } else {
                                    Ok(Recovery::Flow(Flow::Goto(l)))
                                }
                            }
                        }
                    }
                    Flow::End => Ok(Recovery::Flow(Flow::End)),
                    Flow::Next => Ok(Recovery::Flow(Flow::End)),
                    Flow::Abort(c, st, sites) => Ok(Recovery::Flow(Flow::Abort(c, st, sites))),
                    Flow::Return(None) if interrupted_at_main && pending_gosubs > 0 => {
                        // "RETURN continues after the most recent GOSUB not yet returned
                        // from": the handler's RETURN takes the interrupted code's GOSUB.
                        // What state a handler that was never RESUMEd leaves behind, nobody
                        // says: the statement the program continues with is judged, nothing
                        // after it.
                        self.probe("handler_left_by_return");
                        self.frames[0].gosub_depth = gd - 1;
                        self.stop_after_next = true;
                        Ok(Recovery::Flow(Flow::Return(None)))
                    }
                    other => Err(Stop::Early(format!("handler ended in {:?}", other))),
                }
            }
        }
    }

    // ------------------------------------------------------------------
    // statements
    // ------------------------------------------------------------------

    /// If the statement executed last raised an error the model did not expect, that is the
    /// divergence (and its class follows from the kind of statement).
    fn unexpected_error_of_last(&self) -> Option<Divergence> {
        let (id, occ, is_file) = self.last_simple?;
        let used = *self.pending_errors_used.get(&(id, occ)).unwrap_or(&0);
        let (code, row, col) = *self.errors.get(&(id, occ))?.get(used)?;
        Some(Divergence {
            class: if is_file {
                Class::FileProtocol
            } else {
                Class::ControlFlow
            },
            stmt: Some(id),
            detail: format!(
                "statement {}#{} must succeed; the implementation raised error {} at {}:{}",
                id, occ, code, row, col
            ),
        })
    }

    fn begin_simple(&mut self, s: &Stmt) -> R<u32> {
        self.report.statements += 1;
        if self.report.statements > self.step_cap {
            return Err(Stop::Early("model step cap reached".into()));
        }
        let occ = {
            let e = self.occ.entry(s.id).or_insert(0);
            *e += 1;
            *e
        };
        // the implementation must start the same statement now
        match self.stmt_events.get(self.stmt_ev_idx) {
            Some((id, o)) if *id == s.id && *o == occ => {
                self.stmt_ev_idx += 1;
                if self.stop_after_next {
                    return Err(Stop::Early(
                        "a handler was left by RETURN instead of RESUME".into(),
                    ));
                }
                Ok(occ)
            }
            Some((id, o)) => {
                let (id, o) = (*id, *o);
                if let Some(d) = self.unexpected_error_of_last() {
                    return Err(Stop::Diverged(d));
                }
                self.diverge(
                    Class::ControlFlow,
                    Some(s.id),
                    format!(
                        "next statement must be {}#{} ({} on row {}), implementation executed {}#{} (row {})",
                        s.id,
                        occ,
                        s.kind.name(),
                        self.em.starts.get(&s.id).map(|p| p.0).unwrap_or(0),
                        id,
                        o,
                        self.em.starts.get(&id).map(|p| p.0).unwrap_or(0)
                    ),
                )
            }
            None => {
                if matches!(self.outcome, Outcome::Panic { .. }) {
                    return Err(Stop::Early("run ended in an internal failure".into()));
                }
                if matches!(self.outcome, Outcome::Killed) {
                    return Err(Stop::Early(KILLED.into()));
                }
                if matches!(self.outcome, Outcome::Budget) {
                    return Err(Stop::Early("run exhausted its budget".into()));
                }
                if let Some(d) = self.unexpected_error_of_last() {
                    return Err(Stop::Diverged(d));
                }
                self.diverge(
                    Class::ControlFlow,
                    Some(s.id),
                    format!(
                        "next statement must be {}#{} ({} on row {}), implementation executed no further statement (outcome: {})",
                        s.id,
                        occ,
                        s.kind.name(),
                        self.em.starts.get(&s.id).map(|p| p.0).unwrap_or(0),
                        self.outcome.short()
                    ),
                )
            }
        }
    }

    /// Outer Result: the model stops. Inner Result: the statement fails with a BASIC error.
    fn exec_stmt(&mut self, s: &'a Stmt) -> R<Result<Flow, Failure>> {
        match &s.kind {
            StmtKind::Label(_) => Ok(Ok(Flow::Next)),
            StmtKind::If {
                cond,
                then_b,
                elseifs,
                else_b,
            } => {
                self.report.statements += 1;
                match self.eval_header(s, 0, cond)? {
                    HeaderVal::V(0) => {}
                    HeaderVal::V(_) | HeaderVal::Enter => {
                        return Ok(Ok(self.exec_list(then_b, 0, false)?));
                    }
                    HeaderVal::Flow(f) => return Ok(Ok(f)),
                }
                for (ei, (c, b)) in elseifs.iter().enumerate() {
                    match self.eval_header(s, ei + 1, c)? {
                        HeaderVal::V(0) => {}
                        HeaderVal::V(_) | HeaderVal::Enter => {
                            return Ok(Ok(self.exec_list(b, 0, false)?));
                        }
                        HeaderVal::Flow(f) => return Ok(Ok(f)),
                    }
                }
                if let Some(b) = else_b {
                    return Ok(Ok(self.exec_list(b, 0, false)?));
                }
                Ok(Ok(Flow::Next))
            }
            StmtKind::IfLine {
                cond,
                then_s,
                else_s,
            } => {
                self.report.statements += 1;
                let c = match self.eval_header(s, 0, cond)? {
                    HeaderVal::V(v) => v != 0,
                    HeaderVal::Enter => true,
                    HeaderVal::Flow(f) => return Ok(Ok(f)),
                };
                let inner: Option<&'a Stmt> = if c {
                    Some(then_s)
                } else {
                    else_s.as_deref()
                };
                match inner {
                    None => Ok(Ok(Flow::Next)),
                    Some(st) => {
                        let l = std::slice::from_ref(st);
                        Ok(Ok(self.exec_list(l, 0, false)?))
                    }
                }
            }
            StmtKind::For {
                var,
                from,
                to,
                step,
                body,
            } => {
                self.report.statements += 1;
                // a failing bound: RESUME executes the FOR statement again; what "the
                // statement after" a FOR that never set up its loop is, nobody says
                macro_rules! bound {
                    ($e:expr) => {
                        match self.eval_header(s, 0, $e)? {
                            HeaderVal::V(x) => x,
                            HeaderVal::Enter => {
                                return Err(Stop::Early(
                                    "RESUME NEXT after a failing FOR / SELECT CASE line".into(),
                                ));
                            }
                            HeaderVal::Flow(f) => return Ok(Ok(f)),
                        }
                    };
                }
                // (RESUME starts the statement again; the bounds that were evaluated before
                // the one that failed are free of side effects, so evaluating only the failed
                // one again comes to the same)
                let a = bound!(from);
                let b = bound!(to);
                let st = match step {
                    Some(e) => bound!(e),
                    None => 1,
                };
                self.set_int(var, a);
                if st == 0 {
                    return Err(Stop::Early("FOR with zero step".into()));
                }
                let mut guard = 0;
                loop {
                    let v = self.get_int(var);
                    let go = if st > 0 { v <= b } else { v >= b };
                    if !go {
                        break;
                    }
                    guard += 1;
                    if guard > 10_000 {
                        return Err(Stop::Early("model loop cap".into()));
                    }
                    match self.exec_list(body, 0, false)? {
                        Flow::Next => {}
                        Flow::Goto(l) => {
                            self.probe(if step.is_some() {
                                "goto_out_of_for_step"
                            } else {
                                "goto_out_of_for"
                            });
                            return Ok(Ok(Flow::Goto(l)));
                        }
                        other => return Ok(Ok(other)),
                    }
                    let v = self.get_int(var);
                    self.set_int(var, v + st);
                }
                Ok(Ok(Flow::Next))
            }
            StmtKind::While { cond, body } => {
                self.report.statements += 1;
                let mut guard = 0;
                loop {
                    match self.eval_header(s, 0, cond)? {
                        HeaderVal::V(0) => break,
                        HeaderVal::V(_) | HeaderVal::Enter => {}
                        HeaderVal::Flow(f) => return Ok(Ok(f)),
                    }
                    guard += 1;
                    if guard > 10_000 {
                        return Err(Stop::Early("model loop cap".into()));
                    }
                    match self.exec_list(body, 0, false)? {
                        Flow::Next => {}
                        other => return Ok(Ok(other)),
                    }
                }
                Ok(Ok(Flow::Next))
            }
            StmtKind::Do {
                top,
                until,
                cond,
                body,
            } => {
                self.report.statements += 1;
                let mut guard = 0;
                loop {
                    guard += 1;
                    if guard > 10_000 {
                        return Err(Stop::Early("model loop cap".into()));
                    }
                    if *top {
                        match self.eval_header(s, 0, cond)? {
                            HeaderVal::V(v) => {
                                if (v != 0) == *until {
                                    break;
                                }
                            }
                            HeaderVal::Enter => {}
                            HeaderVal::Flow(f) => return Ok(Ok(f)),
                        }
                    }
                    match self.exec_list(body, 0, false)? {
                        Flow::Next => {}
                        other => return Ok(Ok(other)),
                    }
                    if !*top {
                        match self.eval_header(s, 1, cond)? {
                            HeaderVal::V(v) => {
                                if (v != 0) == *until {
                                    break;
                                }
                            }
                            // the statement after the LOOP line follows the loop
                            HeaderVal::Enter => break,
                            HeaderVal::Flow(f) => return Ok(Ok(f)),
                        }
                    }
                }
                Ok(Ok(Flow::Next))
            }
            StmtKind::Select {
                expr,
                cases,
                else_b,
            } => {
                self.report.statements += 1;
                let v = match self.eval_header(s, 0, expr)? {
                    HeaderVal::V(x) => x,
                    HeaderVal::Enter => {
                        return Err(Stop::Early(
                            "RESUME NEXT after a failing FOR / SELECT CASE line".into(),
                        ));
                    }
                    HeaderVal::Flow(f) => return Ok(Ok(f)),
                };
                for (ci, (specs, b)) in cases.iter().enumerate() {
                    let mut hit = false;
                    for sp in specs {
                        // a failing CASE line: RESUME evaluates the expression again,
                        // RESUME NEXT goes on with the statements of that CASE
                        macro_rules! hv {
                            ($e:expr) => {
                                match self.eval_header(s, ci + 1, $e)? {
                                    HeaderVal::V(x) => Some(x),
                                    HeaderVal::Enter => None,
                                    HeaderVal::Flow(f) => return Ok(Ok(f)),
                                }
                            };
                        }
                        let m = match sp {
                            CaseSpec::Simple(e) => match hv!(e) {
                                Some(x) => x == v,
                                None => true,
                            },
                            CaseSpec::Is(op, e) => match hv!(e) {
                                Some(x) => op.eval(v, x),
                                None => true,
                            },
                            CaseSpec::Range(a, b2) => match hv!(a) {
                                None => true,
                                Some(x) => match hv!(b2) {
                                    None => true,
                                    Some(y) => x <= v && v <= y,
                                },
                            },
                        };
                        self.row_override = None;
                        if m {
                            hit = true;
                            break;
                        }
                    }
                    self.row_override = None;
                    if hit {
                        let f = self.exec_list(b, 0, false)?;
                        if let Flow::Goto(_) = f {
                            self.probe("goto_out_of_select");
                        }
                        return Ok(Ok(f));
                    }
                }
                if let Some(b) = else_b {
                    return Ok(Ok(self.exec_list(b, 0, false)?));
                }
                Ok(Ok(Flow::Next))
            }
            _ => self.exec_simple(s),
        }
    }

    fn exec_simple(&mut self, s: &'a Stmt) -> R<Result<Flow, Failure>> {
        let occ = self.begin_simple(s)?;
        let key = (s.id, occ);
        let is_file = matches!(
            &s.kind,
            StmtKind::Open { .. }
                | StmtKind::Close(_)
                | StmtKind::InputFile { .. }
                | StmtKind::LineInputFile { .. }
                | StmtKind::InputCon { .. }
                | StmtKind::LineInputCon { .. }
                | StmtKind::Kill(_)
                | StmtKind::NameAs(..)
                | StmtKind::Field { .. }
                | StmtKind::Lset { .. }
                | StmtKind::Put { .. }
                | StmtKind::Get { .. }
                | StmtKind::Print {
                    dev: Dev::File(_),
                    ..
                }
        );
        self.last_simple = Some((s.id, occ, is_file));
        match &s.kind {
            StmtKind::Print { dev, items, using } => self.exec_print(s, key, *dev, items, using),
            StmtKind::Assign { var, expr } => {
                let v = self.eval_int(expr, s.id)?;
                if var.ends_with('%') && !(-32768..=32767).contains(&v) {
                    // the value of a LONG function that does not fit the INTEGER target
                    self.probe("assignment_overflow_after_call_returned");
                    return Ok(Err(Failure { code: Some(6) }));
                }
                self.set_int(var, v);
                Ok(Ok(Flow::Next))
            }
            StmtKind::SAssign { var, expr } => {
                let v = self.eval(expr, s.id)?;
                if let Val::S(x) = v {
                    self.set_str(var, x);
                }
                Ok(Ok(Flow::Next))
            }
            StmtKind::Goto(l) => Ok(Ok(Flow::Goto(l.clone()))),
            StmtKind::Gosub(l) => {
                let list = self.current_top_list();
                let idx = match Self::find_label(list, l) {
                    Some(i) => i,
                    None => return Err(Stop::Early("GOSUB label not found".into())),
                };
                self.frames.last_mut().unwrap().gosub_depth += 1;
                let d = self.frames.last().unwrap().gosub_depth;
                if d >= 2 {
                    self.probe("gosub_nested");
                }
                let flow = self.exec_list(list, idx + 1, true)?;
                match flow {
                    Flow::Return(None) => Ok(Ok(Flow::Next)),
                    Flow::Return(Some(l2)) => {
                        self.probe("return_label");
                        Ok(Ok(Flow::Goto(l2)))
                    }
                    Flow::Next => {
                        // fell off the end of the procedure / module inside the GOSUB body
                        if self.frames.last().unwrap().proc_idx.is_some() {
                            Ok(Ok(Flow::ExitProc))
                        } else {
                            Ok(Ok(Flow::End))
                        }
                    }
                    other => Ok(Ok(other)),
                }
            }
            StmtKind::Return(opt) => {
                let f = self.frames.last_mut().unwrap();
                if f.gosub_depth == 0 {
                    self.probe("return_without_gosub");
                    return Ok(Err(Failure { code: Some(3) }));
                }
                f.gosub_depth -= 1;
                Ok(Ok(Flow::Return(opt.clone())))
            }
            StmtKind::CallSub { name, args } => {
                let mut vals = vec![];
                for a in args {
                    vals.push(self.eval_int(a, s.id)?);
                }
                let flow = self.call(name, &vals, s.id)?;
                match flow {
                    CallEnd::Returned(_) => Ok(Ok(Flow::Next)),
                    CallEnd::Flow(f) => Ok(Ok(f)),
                }
            }
            StmtKind::ExitProc => Ok(Ok(Flow::ExitProc)),
            StmtKind::OnErrorGoto(l) => {
                if self.handler != HandlerMode::Off {
                    self.probe("handler_re_armed_or_replaced");
                }
                if self.frames.len() > 1 {
                    self.probe("on_error_in_subprogram");
                }
                self.handler = HandlerMode::Goto(l.clone());
                Ok(Ok(Flow::Next))
            }
            StmtKind::OnErrorGoto0 => {
                // also inside a handler: "after ON ERROR GOTO 0 ... the error ends the
                // program" - the handler goes on to its RESUME, later errors are fatal
                if self.in_handler > 0 {
                    self.probe("on_error_goto_0_inside_handler");
                }
                self.probe("on_error_goto_0");
                self.handler = HandlerMode::Off;
                Ok(Ok(Flow::Next))
            }
            StmtKind::OnErrorResumeNext => {
                self.handler = HandlerMode::ResumeNext;
                Ok(Ok(Flow::Next))
            }
            StmtKind::Resume(kind) => {
                if self.in_handler == 0 {
                    self.probe("resume_without_error");
                    return Ok(Err(Failure { code: Some(20) }));
                }
                Ok(Ok(Flow::Resume(kind.clone())))
            }
            StmtKind::End => Ok(Ok(Flow::End)),
            StmtKind::Fail(k) => {
                if self.fired.contains_key(&key) {
                    // (a device that failed for good: which of the two errors wins is open)
                    return Err(Stop::Early(
                        "fault fired in a statement that fails by itself".into(),
                    ));
                }
                if let FailKind::PrintThenDivZero = k {
                    // the first item is delivered, then the statement fails
                    let seg = Seg {
                        alts: vec![b"x".to_vec()],
                        tag: Tag::Literal,
                    };
                    self.emit_seg(DevKey::Screen, &seg, s.id)?;
                    self.probe("print_abandoned_after_first_item");
                }
                if let FailKind::DivZeroMid = k {
                    self.probe("error_with_operand_saved_on_stack");
                }
                Ok(Err(Failure {
                    code: Some(k.code()),
                }))
            }
            StmtKind::Open {
                name,
                mode,
                handle,
                len,
            } => self.exec_open(s, key, name, *mode, *handle, *len),
            StmtKind::Close(hs) => {
                if let Some(r) = self.env_fault_failure(key) {
                    // "CLOSE of one handle or of all makes the handles reusable": also when
                    // the device spoils it (an implementation that flushes at CLOSE may see
                    // that flush fail) - the error is raised, the handles are free
                    if hs.is_empty() {
                        let all: Vec<i32> = self.handles.keys().cloned().collect();
                        for h in all {
                            self.drop_handle(h);
                        }
                    } else {
                        for h in hs {
                            if (1..=255).contains(h) {
                                self.drop_handle(*h);
                            }
                        }
                    }
                    return r;
                }
                if hs.is_empty() {
                    let all: Vec<i32> = self.handles.keys().cloned().collect();
                    for h in all {
                        self.drop_handle(h);
                    }
                } else {
                    for h in hs {
                        if !(1..=255).contains(h) {
                            return Ok(Err(Failure { code: Some(52) }));
                        }
                        self.drop_handle(*h);
                    }
                }
                Ok(Ok(Flow::Next))
            }
            StmtKind::InputFile { handle, vars } => self.exec_input(s, key, Some(*handle), vars, false),
            StmtKind::LineInputFile { handle, var } => {
                self.exec_input(s, key, Some(*handle), std::slice::from_ref(var), true)
            }
            StmtKind::InputCon { vars } => self.exec_input(s, key, None, vars, false),
            StmtKind::LineInputCon { var } => {
                self.exec_input(s, key, None, std::slice::from_ref(var), true)
            }
            StmtKind::Kill(name) => {
                if self.handles.values().any(|h| &h.name == name) {
                    return Err(Stop::Early("KILL of an open file".into()));
                }
                if let Some(r) = self.env_fault_failure(key) {
                    return r;
                }
                if self.store.remove(name).is_some() {
                    self.random_saved.remove(name);
                    Ok(Ok(Flow::Next))
                } else if self.dirs.iter().any(|d| d == name) {
                    Ok(Err(Failure { code: None }))
                } else {
                    Ok(Err(Failure { code: Some(53) }))
                }
            }
            StmtKind::NameAs(a, b) => {
                if self.handles.values().any(|h| &h.name == a || &h.name == b) {
                    return Err(Stop::Early("NAME of an open file".into()));
                }
                if self.store.contains_key(b) {
                    return Err(Stop::Early("NAME onto an existing file".into()));
                }
                if let Some(r) = self.env_fault_failure(key) {
                    return r;
                }
                if !self.store.contains_key(a) {
                    return Ok(Err(Failure { code: Some(53) }));
                }
                if self.dirs.iter().any(|d| d == b) || !self.parent_exists(b) {
                    return Ok(Err(Failure { code: None }));
                }
                let v = self.store.remove(a).unwrap();
                self.store.insert(b.clone(), v);
                if self.random_names.contains(a) {
                    self.random_names.insert(b.clone());
                }
                Ok(Ok(Flow::Next))
            }
            StmtKind::Field { handle, fields } => {
                match self.handles.get_mut(handle) {
                    None => Ok(Err(Failure { code: None })),
                    Some(h) => {
                        let list: Vec<(usize, String)> =
                            fields.iter().map(|(w, v)| (*w as usize, v.clone())).collect();
                        let total: usize = list.iter().map(|f| f.0).sum();
                        if h.mode != Mode::Random || total > h.rec_len {
                            // wrong mode, or the fields do not fit the record: a file error
                            return Ok(Err(Failure { code: None }));
                        }
                        h.current_fields = Some(h.field_lists.len());
                        h.field_lists.push(list);
                        Ok(Ok(Flow::Next))
                    }
                }
            }
            StmtKind::Lset { var, expr } => {
                let v = self.eval(expr, s.id)?;
                let sv = match v {
                    Val::S(x) => x,
                    _ => String::new(),
                };
                // the variable must be fielded on an open file
                let mut found = false;
                for h in self.handles.values_mut() {
                    // (the FIELD statement executed last wins)
                    for (i, l) in h.field_lists.iter().enumerate().rev() {
                        if l.iter().any(|(_, n)| n.eq_ignore_ascii_case(var)) {
                            h.current_fields = Some(i);
                            found = true;
                            break;
                        }
                    }
                    if found {
                        break;
                    }
                }
                if !found {
                    return Ok(Err(Failure { code: None }));
                }
                self.set_str(var, sv);
                Ok(Ok(Flow::Next))
            }
            StmtKind::Put { handle, rec } => self.exec_put(s, key, *handle, *rec),
            StmtKind::Get { handle, rec } => self.exec_get(s, key, *handle, *rec),
            StmtKind::If { .. }
            | StmtKind::IfLine { .. }
            | StmtKind::For { .. }
            | StmtKind::While { .. }
            | StmtKind::Do { .. }
            | StmtKind::Select { .. }
            | StmtKind::Label(_) => unreachable!(),
        }
    }

    fn parent_exists(&self, name: &str) -> bool {
        match name.rfind('/') {
            None => true,
            Some(i) => self.dirs.iter().any(|d| d == &name[..i]),
        }
    }

    /// A fault fired during this statement execution (path-level operations and
    /// statements whose only effect is the operation): the statement must fail
    /// with some defined error; a transparent fault may be absorbed.
    fn env_fault_failure(&mut self, key: (StmtId, u32)) -> Option<R<Result<Flow, Failure>>> {
        let faults = self.fired.get(&key)?.clone();
        let errored = self.errors.contains_key(&key);
        let all_transparent = faults.iter().all(|f| f.2.is_transparent_candidate());
        if errored {
            Some(Ok(Err(Failure { code: None })))
        } else if all_transparent {
            None
        } else {
            Some(self.diverge(
                Class::FileProtocol,
                Some(key.0),
                format!(
                    "injected fault {:?} during statement {}#{} was swallowed: no error raised",
                    faults, key.0, key.1
                ),
            ))
        }
    }

    // ------------------------------------------------------------------
    // calls and expressions
    // ------------------------------------------------------------------

    fn call(&mut self, name: &str, args: &[i64], site: StmtId) -> R<CallEnd> {
        let idx = match self
            .sc
            .procs
            .iter()
            .position(|p| p.name.eq_ignore_ascii_case(name))
        {
            Some(i) => i,
            None => return Err(Stop::Early(format!("unknown procedure {}", name))),
        };
        if self.frames.len() > MAX_DEPTH {
            return Err(Stop::Early("model recursion cap".into()));
        }
        let p: &'a Proc = &self.sc.procs[idx];
        let mut f = match (p.is_static, self.static_frames.remove(&idx)) {
            (true, Some(saved)) => saved,
            _ => Frame {
                proc_idx: Some(idx),
                ..Default::default()
            },
        };
        f.gosub_depth = 0;
        for (n, v) in p.params.iter().zip(args.iter()) {
            f.ints.insert(n.to_uppercase(), *v);
        }
        self.frames.push(f);
        let row = match self.row_override {
            Some(r) => r,
            None => self.em.starts.get(&site).map(|p| p.0).unwrap_or(0),
        };
        let saved_override = self.row_override.take();
        self.callsites.push(row);
        self.report.max_call_depth = self.report.max_call_depth.max(self.callsites.len());
        if self.callsites.len() >= 2 {
            self.probe("call_depth_2_or_more");
        }
        let flow = self.exec_list(&p.body, 0, true);
        let frame = self.frames.pop().unwrap();
        if p.is_static {
            self.static_frames.insert(idx, frame.clone());
        }
        self.callsites.pop();
        self.row_override = saved_override;
        let flow = flow?;
        match flow {
            Flow::Next | Flow::ExitProc => {
                let result = *frame.ints.get(&p.name.to_uppercase()).unwrap_or(&0);
                Ok(CallEnd::Returned(result))
            }
            Flow::End => Ok(CallEnd::Flow(Flow::End)),
            Flow::UnwindGoto(l) => Ok(CallEnd::Flow(Flow::UnwindGoto(l))),
            Flow::Abort(c, s, sites) => Ok(CallEnd::Flow(Flow::Abort(c, s, sites))),
            Flow::Goto(l) => Err(Stop::Early(format!("GOTO {} left a procedure", l))),
            other => Err(Stop::Early(format!("procedure ended in {:?}", other))),
        }
    }

    fn get_int(&self, name: &str) -> i64 {
        *self
            .frames
            .last()
            .unwrap()
            .ints
            .get(&name.to_uppercase())
            .unwrap_or(&0)
    }

    fn set_int(&mut self, name: &str, v: i64) {
        let f = self.frames.last_mut().unwrap();
        f.from_input.remove(&name.to_uppercase());
        f.ints.insert(name.to_uppercase(), v);
    }

    fn get_str(&self, name: &str) -> String {
        self.frames
            .last()
            .unwrap()
            .strs
            .get(&name.to_uppercase())
            .cloned()
            .unwrap_or_default()
    }

    fn set_str(&mut self, name: &str, v: String) {
        let f = self.frames.last_mut().unwrap();
        f.from_input.remove(&name.to_uppercase());
        f.strs.insert(name.to_uppercase(), v);
    }

    fn mark_input(&mut self, name: &str) {
        self.frames
            .last_mut()
            .unwrap()
            .from_input
            .insert(name.to_uppercase());
    }

    fn is_from_input(&self, e: &Expr) -> bool {
        match e {
            Expr::Var(n) | Expr::SVar(n) => self
                .frames
                .last()
                .unwrap()
                .from_input
                .contains(&n.to_uppercase()),
            Expr::Eof(_) => true,
            _ => false,
        }
    }

    /// INTEGER arithmetic outside -32768..32767 belongs to another property (numeric
    /// range); the model does not follow a program there.
    fn in_range(v: i64) -> R<Val> {
        if (-32768..=32767).contains(&v) {
            Ok(Val::I(v))
        } else {
            Err(Stop::Early("integer value outside the INTEGER range".into()))
        }
    }

    fn eval_int(&mut self, e: &Expr, site: StmtId) -> R<i64> {
        match self.eval(e, site)? {
            Val::I(i) => Ok(i),
            Val::F(f) => Ok(f as i64),
            Val::S(_) => Err(Stop::Early("string used as integer".into())),
        }
    }

    fn eval(&mut self, e: &Expr, site: StmtId) -> R<Val> {
        Ok(match e {
            Expr::Int(n) => Val::I(*n as i64),
            Expr::Num(n) => Val::F(n.value),
            Expr::Str(s) => Val::S(s.clone()),
            Expr::Var(v) => Val::I(self.get_int(v)),
            Expr::SVar(v) => Val::S(self.get_str(v)),
            Expr::Add(a, b) => {
                let x = self.eval(a, site)?;
                let y = self.eval(b, site)?;
                match (x, y) {
                    (Val::S(p), Val::S(q)) => Val::S(p + &q),
                    (Val::I(p), Val::I(q)) => Self::in_range(p + q)?,
                    _ => return Err(Stop::Early("mixed addition".into())),
                }
            }
            Expr::Sub(a, b) => {
                let v = self.eval_int(a, site)? - self.eval_int(b, site)?;
                Self::in_range(v)?
            }
            Expr::Mul(a, b) => {
                let v = self.eval_int(a, site)? * self.eval_int(b, site)?;
                Self::in_range(v)?
            }
            Expr::Cmp(op, a, b) => {
                let x = self.eval_int(a, site)?;
                let y = self.eval_int(b, site)?;
                Val::I(if op.eval(x, y) { -1 } else { 0 })
            }
            Expr::Paren(x) => self.eval(x, site)?,
            Expr::LenOf(t) => Val::I(t.len() as i64),
            Expr::Quot(x) => {
                let v = self.eval_int(x, site)?;
                let d = self.get_int("DZ%");
                if d == 0 {
                    return Err(Stop::ExprFail(11));
                }
                Val::I(v / d)
            }
            Expr::Err => Val::I(self.err),
            Expr::Eof(h) => {
                let hd = match self.handles.get(h) {
                    Some(hd) if hd.mode == Mode::Input => hd,
                    _ => return Err(Stop::Early("EOF() on a handle not open for input".into())),
                };
                if !hd.cursor_known {
                    return Err(Stop::Early("EOF() on a handle whose cursor is unknown".into()));
                }
                if self.has_unclosed_text(&hd.name) {
                    return Err(Stop::Early(
                        "read of a file while an open APPEND writer has text in it that is not closed yet".into(),
                    ));
                }
                let len = self.store.get(&hd.name).map(|v| v.len()).unwrap_or(0);
                Val::I(if hd.cursor >= len { -1 } else { 0 })
            }
            Expr::Call(name, args) => {
                let mut vals = vec![];
                for a in args {
                    vals.push(self.eval_int(a, site)?);
                }
                match self.call(name, &vals, site)? {
                    CallEnd::Returned(v) => Val::I(v),
                    CallEnd::Flow(f) => return Err(Stop::Flow(f)),
                }
            }
        })
    }

    // ------------------------------------------------------------------
    // M-DEV: rendering and matching
    // ------------------------------------------------------------------

    fn dev_key(&self, dev: Dev) -> Option<DevKey> {
        match dev {
            Dev::Screen => Some(DevKey::Screen),
            Dev::Lpt1 => Some(DevKey::Lpt1),
            Dev::File(h) => self.handles.get(&h).map(|x| DevKey::Inst(x.inst)),
        }
    }

    fn dev_state(&mut self, k: DevKey) -> &mut DevState {
        match k {
            DevKey::Screen => &mut self.screen,
            DevKey::Lpt1 => &mut self.lpt1,
            DevKey::Inst(i) => {
                &mut self
                    .handles
                    .values_mut()
                    .find(|h| h.inst == i)
                    .expect("instance of an open handle")
                    .dev
            }
        }
    }

    fn actual(&self, k: DevKey) -> (&'a [u8], &'a [Chunk]) {
        match k {
            DevKey::Screen => (&self.w.screen.bytes, &self.w.screen.chunks),
            DevKey::Lpt1 => (&self.w.lpt1.bytes, &self.w.lpt1.chunks),
            DevKey::Inst(i) => match self.w.files.get(i as usize) {
                Some(f) => (&f.written, &f.chunks),
                None => (&[], &[]),
            },
        }
    }

    fn class_of_tag(tag: Tag) -> Class {
        match tag {
            Tag::Literal | Tag::Number | Tag::Pad | Tag::Newline | Tag::Using => Class::Layout,
            Tag::Var => Class::VarValue,
            Tag::Err => Class::ErrValue,
            Tag::FileValue => Class::FileData,
        }
    }

    /// Matches one segment at the device's read pointer (strict).
    fn emit_seg(&mut self, k: DevKey, seg: &Seg, stmt: StmtId) -> R<()> {
        let (bytes, _) = self.actual(k);
        let pos = self.dev_state(k).pos;
        let rest = &bytes[pos.min(bytes.len())..];
        let mut matched: Option<usize> = None;
        for (i, a) in seg.alts.iter().enumerate() {
            if rest.len() >= a.len() && &rest[..a.len()] == a.as_slice() {
                matched = Some(i);
                break;
            }
        }
        match matched {
            Some(i) => {
                let a = seg.alts[i].clone();
                let st = self.dev_state(k);
                st.pos += a.len();
                if let Some(c) = st.col.as_mut() {
                    for b in &a {
                        if *b == b'\r' || *b == b'\n' {
                            *c = 0;
                        } else if (*b & 0xC0) != 0x80 {
                            // a column is a character: continuation bytes do not count
                            *c += 1;
                        }
                    }
                }
                // model store: bytes written to a file
                if let DevKey::Inst(inst) = k {
                    self.append_to_file(inst, &a);
                }
                self.prev_seg_tag = Some(seg.tag);
                Ok(())
            }
            None => {
                if matches!(self.outcome, Outcome::Killed)
                    && seg.alts.iter().all(|a| rest.len() < a.len())
                {
                    return Err(Stop::Early(KILLED.into()));
                }
                if matches!(self.outcome, Outcome::Budget | Outcome::Panic { .. })
                    && seg.alts.iter().all(|a| rest.len() < a.len())
                {
                    return Err(Stop::Early(
                        "run ended abnormally before this output".into(),
                    ));
                }
                let want = String::from_utf8_lossy(&seg.alts[0]).to_string();
                let n = seg.alts[0].len().max(1) + 8;
                let got = String::from_utf8_lossy(&rest[..rest.len().min(n)]).to_string();
                // a value item whose bytes are not even a well-formed number token is a
                // layout problem (wrong device, missing sign/space), not a wrong value
                let mut class = Self::class_of_tag(seg.tag);
                // a string read from a file that came out longer (or otherwise different
                // behind a matching prefix) shows at the literal that follows it: that is a
                // wrong value from a file, not a layout problem
                if matches!(seg.tag, Tag::Literal)
                    && matches!(self.prev_seg_tag, Some(Tag::FileValue))
                {
                    class = Class::FileData;
                }
                let numeric = seg.alts[0].len() >= 3
                    && (seg.alts[0][0] == b' ' || seg.alts[0][0] == b'-')
                    && *seg.alts[0].last().unwrap() == b' '
                    && seg.alts[0][1..seg.alts[0].len() - 1]
                        .iter()
                        .all(|c| c.is_ascii_digit());
                if numeric && matches!(seg.tag, Tag::Var | Tag::Err | Tag::FileValue) {
                    let mut j = 0;
                    let mut ok = !rest.is_empty() && (rest[0] == b' ' || rest[0] == b'-');
                    j += 1;
                    let d0 = j;
                    while ok && j < rest.len() && rest[j].is_ascii_digit() {
                        j += 1;
                    }
                    ok = ok && j > d0 && j < rest.len() && rest[j] == b' ';
                    if !ok {
                        class = Class::Layout;
                    }
                }
                self.diverge(
                    class,
                    Some(stmt),
                    format!(
                        "{:?} byte {}: expected {:?} ({:?}), got {:?}",
                        k, pos, want, seg.tag, got
                    ),
                )
            }
        }
    }

    /// Bytes written through a handle: an APPEND handle always writes at the end of the
    /// file, an OUTPUT handle at its own position (several handles may have the file open).
    fn append_to_file(&mut self, inst: u32, bytes: &[u8]) {
        if bytes.is_empty() {
            return;
        }
        if let Some(h) = self.handles.values_mut().find(|h| h.inst == inst) {
            let name = h.name.clone();
            let data = self.store.entry(name).or_default();
            let pos = if h.mode == Mode::Append {
                data.len()
            } else {
                h.wpos
            };
            if pos > data.len() {
                data.resize(pos, 0);
            }
            let end = pos + bytes.len();
            if end > data.len() {
                data.resize(end, 0);
            }
            data[pos..end].copy_from_slice(bytes);
            h.wpos = end;
        }
    }

    fn render_number(v: &Val) -> Seg {
        match v {
            Val::I(i) => {
                let s = if *i < 0 {
                    format!("-{} ", -i)
                } else {
                    format!(" {} ", i)
                };
                Seg {
                    alts: vec![s.into_bytes()],
                    tag: Tag::Number,
                }
            }
            Val::F(f) => {
                let sign = if *f < 0.0 { "-" } else { " " };
                let a = f.abs();
                let full = format!("{}", a);
                let mut alts = vec![format!("{}{} ", sign, full).into_bytes()];
                if let Some(stripped) = full.strip_prefix("0.") {
                    alts.push(format!("{}.{} ", sign, stripped).into_bytes());
                }
                Seg {
                    alts,
                    tag: Tag::Number,
                }
            }
            Val::S(_) => unreachable!(),
        }
    }

    /// Renders the items of a PRINT into segments, given the device column at start.
    /// Returns the segments; the column is advanced while matching.
    fn exec_print(
        &mut self,
        s: &'a Stmt,
        key: (StmtId, u32),
        dev: Dev,
        items: &'a [PItem],
        using: &'a Option<String>,
    ) -> R<Result<Flow, Failure>> {
        // the device of the statement is fixed for all its items
        let k = match self.dev_key(dev) {
            Some(k) => {
                // wrong mode?
                if let Dev::File(h) = dev {
                    let hd = &self.handles[&h];
                    if hd.mode != Mode::Output && hd.mode != Mode::Append {
                        self.probe("print_to_handle_in_wrong_mode");
                        return Ok(Err(Failure { code: None }));
                    }
                }
                k
            }
            None => {
                self.probe("print_to_closed_handle");
                return Ok(Err(Failure { code: None }));
            }
        };
        let faults = self.fired.get(&key).cloned().unwrap_or_default();
        let errored = self.errors.contains_key(&key);
        let faulted = !faults.is_empty();
        if faulted && !errored {
            if !faults.iter().all(|f| f.2.is_transparent_candidate()) {
                return self.diverge(
                    Class::DeviceFault,
                    Some(s.id),
                    format!(
                        "injected fault {:?} on {:?} during PRINT {}#{} was swallowed: the statement completed without a BASIC error",
                        faults, k, key.0, key.1
                    ),
                );
            }
            self.probe("transparent_fault_absorbed");
        }
        let failing = faulted && errored;
        if failing {
            // relaxed: a prefix of the statement's bytes is delivered, then the error
            return self.exec_print_faulted(s, key, k, items, using);
        }
        let desync = self.dev_state(k).col.is_none();
        if desync {
            return self.exec_print_desynced(s, key, k, items, using);
        }
        // strict
        let mut using_state = using.as_ref().map(|f| UsingState::new(f));
        let mut trailing_sep = false;
        for it in items {
            match it {
                PItem::E(e) => {
                    trailing_sep = false;
                    let from_input = self.is_from_input(e);
                    let v = self.eval(e, s.id)?;
                    let seg = match (&mut using_state, &v) {
                        (Some(u), _) => match u.render(&v) {
                            Some(bytes) => Seg {
                                alts: vec![bytes],
                                tag: Tag::Using,
                            },
                            None => return Err(Stop::Early("USING format not renderable by the model".into())),
                        },
                        (None, Val::S(x)) => Seg {
                            alts: vec![x.clone().into_bytes()],
                            tag: if from_input {
                                Tag::FileValue
                            } else if matches!(e, Expr::SVar(_)) {
                                Tag::Var
                            } else {
                                Tag::Literal
                            },
                        },
                        (None, _) => {
                            let mut sg = Self::render_number(&v);
                            sg.tag = if matches!(e, Expr::Err) {
                                Tag::Err
                            } else if from_input {
                                Tag::FileValue
                            } else if matches!(e, Expr::Int(_) | Expr::Num(_)) {
                                Tag::Number
                            } else {
                                Tag::Var
                            };
                            sg
                        }
                    };
                    // embedded CR / LF in strings: the bytes of the line break are not
                    // compared, only the column restart is
                    if let (None, Val::S(x)) = (&using_state, &v) {
                        if x.contains('\r') || x.contains('\n') {
                            self.emit_string_with_breaks(k, x, s.id)?;
                            self.probe("string_with_embedded_cr_lf");
                            continue;
                        }
                    }
                    self.emit_seg(k, &seg, s.id)?;
                }
                PItem::Semi => {
                    trailing_sep = true;
                }
                PItem::Comma => {
                    trailing_sep = true;
                    let col = self.dev_state(k).col.unwrap();
                    match col % 14 {
                        13 => self.probe("comma_at_column_13"),
                        0 => self.probe("comma_at_zone_boundary"),
                        1 => self.probe("comma_at_column_15"),
                        _ => {}
                    }
                    let n = 14 - col % 14;
                    let seg = Seg {
                        alts: vec![vec![b' '; n]],
                        tag: Tag::Pad,
                    };
                    self.emit_seg(k, &seg, s.id)?;
                }
            }
        }
        if let Some(u) = &mut using_state {
            let rest = u.finish();
            if !rest.is_empty() {
                let seg = Seg {
                    alts: vec![rest],
                    tag: Tag::Using,
                };
                self.emit_seg(k, &seg, s.id)?;
            }
        }
        if !trailing_sep {
            let seg = Seg {
                alts: vec![b"\r\n".to_vec()],
                tag: Tag::Newline,
            };
            self.emit_seg(k, &seg, s.id)?;
        } else {
            self.probe("print_trailing_separator");
        }
        // every byte the implementation attributed to this statement execution on this
        // device must have been consumed
        self.sync_chunks(k, key, s.id, true)?;
        Ok(Ok(Flow::Next))
    }

    fn emit_string_with_breaks(&mut self, k: DevKey, x: &str, stmt: StmtId) -> R<()> {
        // pieces between line-break characters are compared verbatim; each CR or LF
        // must produce some line break (CR, LF or CR LF bytes) and restarts the column
        let mut piece = String::new();
        for ch in x.chars() {
            if ch == '\r' || ch == '\n' {
                let seg = Seg {
                    alts: vec![piece.clone().into_bytes()],
                    tag: Tag::Literal,
                };
                self.emit_seg(k, &seg, stmt)?;
                piece.clear();
                let seg = Seg {
                    alts: vec![b"\r\n".to_vec(), b"\r".to_vec(), b"\n".to_vec()],
                    tag: Tag::Newline,
                };
                self.emit_seg(k, &seg, stmt)?;
            } else {
                piece.push(ch);
            }
        }
        let seg = Seg {
            alts: vec![piece.into_bytes()],
            tag: Tag::Literal,
        };
        self.emit_seg(k, &seg, stmt)
    }

    /// After a strictly matched statement: the chunks the implementation attributed to
    /// this execution must end exactly at the read pointer.
    fn sync_chunks(&mut self, k: DevKey, key: (StmtId, u32), stmt: StmtId, strict: bool) -> R<()> {
        let (_, chunks) = self.actual(k);
        let st = self.dev_state(k);
        let mut idx = st.chunk_idx;
        let pos = st.pos;
        while idx < chunks.len() && chunks[idx].start + chunks[idx].len <= pos {
            idx += 1;
        }
        self.dev_state(k).chunk_idx = idx;
        if strict {
            if let Some(c) = chunks.get(idx) {
                if c.stmt == Some(key) {
                    let (bytes, _) = self.actual(k);
                    let end = c.start + c.len;
                    let from = pos.max(c.start);
                    return self.diverge(
                        Class::Layout,
                        Some(stmt),
                        format!(
                            "{:?}: statement {}#{} wrote extra bytes {:?} after its expected output",
                            k,
                            key.0,
                            key.1,
                            String::from_utf8_lossy(&bytes[from..end])
                        ),
                    );
                }
            }
        }
        Ok(())
    }

    /// Total length of the bytes the implementation attributed to (stmt, occ) on the
    /// device, starting at the read pointer.
    fn attributed_len(&mut self, k: DevKey, key: (StmtId, u32)) -> usize {
        let (_, chunks) = self.actual(k);
        let st = self.dev_state(k);
        let pos = st.pos;
        let mut idx = st.chunk_idx;
        while idx < chunks.len() && chunks[idx].start + chunks[idx].len <= pos {
            idx += 1;
        }
        let mut end = pos;
        while idx < chunks.len() && chunks[idx].stmt == Some(key) {
            end = chunks[idx].start + chunks[idx].len;
            idx += 1;
        }
        end.saturating_sub(pos)
    }

    /// The statement execution was hit by a fault and raised an error: whatever it
    /// delivered must be a prefix of what it had to deliver.
    fn exec_print_faulted(
        &mut self,
        s: &'a Stmt,
        key: (StmtId, u32),
        k: DevKey,
        items: &'a [PItem],
        using: &'a Option<String>,
    ) -> R<Result<Flow, Failure>> {
        self.probe("print_failed_by_fault");
        // which items were evaluated before the failure depends on the write call that
        // failed; with function calls among the items the model does not guess
        fn has_call(e: &Expr) -> bool {
            match e {
                Expr::Call(..) => true,
                Expr::Add(a, b) | Expr::Sub(a, b) | Expr::Mul(a, b) | Expr::Cmp(_, a, b) => {
                    has_call(a) || has_call(b)
                }
                Expr::Paren(x) => has_call(x),
                _ => false,
            }
        }
        if items.iter().any(|it| matches!(it, PItem::E(e) if has_call(e))) {
            // ... but wherever the statement stopped, the error it raised is its own:
            // row of this statement, column inside its text
            if let (Some((row, c0, c1)), Some(errs)) = (self.span_of(s.id), self.errors.get(&key)) {
                for (_, erow, ecol) in errs {
                    if *erow != row || *ecol < c0 || *ecol > c1 {
                        return self.diverge(
                            Class::Position,
                            Some(s.id),
                            format!(
                                "error of statement {} (a PRINT cut short by a device fault) reported at {}:{}, statement text is at row {} columns {}..={}",
                                s.id, erow, ecol, row, c0, c1
                            ),
                        );
                    }
                }
            }
            return Err(Stop::Early(
                "PRINT with function-call items cut short by a fault".into(),
            ));
        }
        let delivered = self.attributed_len(k, key);
        let known = self.dev_state(k).col.is_some();
        if known && using.is_none() {
            // render the full expected output (first alternative of each segment; scenarios
            // under fault injection print integers and plain strings only)
            let mut expected: Vec<u8> = vec![];
            let mut col = self.dev_state(k).col.unwrap();
            let mut trailing_sep = false;
            let mut renderable = true;
            for it in items {
                match it {
                    PItem::E(e) => {
                        trailing_sep = false;
                        // evaluation may itself call functions; effects happen as usual
                        let v = self.eval(e, s.id)?;
                        let bytes = match &v {
                            Val::S(x) => {
                                if x.contains('\r') || x.contains('\n') {
                                    renderable = false;
                                }
                                x.clone().into_bytes()
                            }
                            Val::F(_) => {
                                renderable = false;
                                vec![]
                            }
                            _ => Self::render_number(&v).alts[0].clone(),
                        };
                        col += bytes.iter().filter(|b| (**b & 0xC0) != 0x80).count();
                        expected.extend_from_slice(&bytes);
                    }
                    PItem::Semi => trailing_sep = true,
                    PItem::Comma => {
                        trailing_sep = true;
                        let n = 14 - col % 14;
                        expected.extend(std::iter::repeat_n(b' ', n));
                        col += n;
                    }
                }
                if !renderable {
                    break;
                }
            }
            if renderable {
                if !trailing_sep {
                    expected.extend_from_slice(b"\r\n");
                }
                let (bytes, _) = self.actual(k);
                let pos = self.dev_state(k).pos;
                let got = &bytes[pos..pos + delivered];
                if delivered > expected.len() || got != &expected[..delivered] {
                    return self.diverge(
                        Class::DeviceFault,
                        Some(s.id),
                        format!(
                            "{:?}: PRINT {}#{} failed by an injected fault delivered {:?}, which is not a prefix of {:?}",
                            k,
                            key.0,
                            key.1,
                            String::from_utf8_lossy(got),
                            String::from_utf8_lossy(&expected)
                        ),
                    );
                }
            }
        } else {
            // evaluate items for their side effects only
            for it in items {
                if let PItem::E(e) = it {
                    self.eval(e, s.id)?;
                }
            }
        }
        // account for what was delivered, lose the column
        let (bytes, _) = self.actual(k);
        let pos = self.dev_state(k).pos;
        let got = bytes[pos..pos + delivered].to_vec();
        if let DevKey::Inst(inst) = k {
            self.append_to_file(inst, &got);
        }
        // Column after the failure. A hard fault (error, Ok(0), EINTR surfaced as an error)
        // rejects a whole write call, so what reached the device ends at a boundary the
        // implementation knows: the column is the column of the delivered bytes. With a
        // short write in the same execution a fragment may be cut in the middle: unknown.
        let faults = self.fired.get(&key).cloned().unwrap_or_default();
        let cut_fragment = faults
            .iter()
            .any(|f| matches!(f.2, FaultKind::ShortWrite(_)));
        let start_col = self.dev_state(k).col;
        let st = self.dev_state(k);
        st.pos += delivered;
        // (since fix 61 the implementation counts the characters that went out before the
        // device refused the rest, so a cut fragment leaves a known column as well)
        let _ = cut_fragment;
        st.col = match (start_col, false) {
            (Some(c0), false) => {
                let mut c = c0;
                for b in &got {
                    if *b == b'\r' || *b == b'\n' {
                        c = 0;
                    } else if (*b & 0xC0) != 0x80 {
                        c += 1;
                    }
                }
                Some(c)
            }
            _ => None,
        };
        if st.col.is_some() {
            self.probe("column_known_after_failed_print");
        }
        self.sync_chunks(k, key, s.id, false)?;
        Ok(Err(Failure { code: None }))
    }

    /// The device column is unknown (an earlier statement on it was cut short by a
    /// fault): bytes are not compared until a statement ends the line.
    fn exec_print_desynced(
        &mut self,
        s: &'a Stmt,
        key: (StmtId, u32),
        k: DevKey,
        items: &'a [PItem],
        _using: &'a Option<String>,
    ) -> R<Result<Flow, Failure>> {
        self.probe("print_on_desynced_device");
        if _using.is_some() && self.errors.contains_key(&key) {
            return Err(Stop::Early(
                "PRINT USING raised an error on a device whose column is unknown".into(),
            ));
        }
        let mut trailing_sep = false;
        for it in items {
            match it {
                PItem::E(e) => {
                    trailing_sep = false;
                    self.eval(e, s.id)?;
                }
                _ => trailing_sep = true,
            }
        }
        let delivered = self.attributed_len(k, key);
        let (bytes, _) = self.actual(k);
        let pos = self.dev_state(k).pos;
        let got = bytes[pos..pos + delivered].to_vec();
        if let DevKey::Inst(inst) = k {
            self.append_to_file(inst, &got);
        }
        let st = self.dev_state(k);
        st.pos += delivered;
        if !trailing_sep {
            if !got.ends_with(b"\r\n") {
                return self.diverge(
                    Class::Layout,
                    Some(s.id),
                    format!(
                        "{:?}: PRINT {}#{} without trailing separator did not end the line (wrote {:?})",
                        k,
                        key.0,
                        key.1,
                        String::from_utf8_lossy(&got)
                    ),
                );
            }
            self.dev_state(k).col = Some(0);
            self.probe("device_resynced_at_line_end");
        }
        self.sync_chunks(k, key, s.id, false)?;
        Ok(Ok(Flow::Next))
    }

    // ------------------------------------------------------------------
    // M-FS
    // ------------------------------------------------------------------

    fn exec_open(
        &mut self,
        s: &'a Stmt,
        key: (StmtId, u32),
        name: &str,
        mode: Mode,
        handle: i32,
        len: Option<i32>,
    ) -> R<Result<Flow, Failure>> {
        if !(1..=255).contains(&handle) {
            return Ok(Err(Failure { code: Some(52) }));
        }
        if self.handles.contains_key(&handle) {
            self.probe("open_on_handle_in_use");
            return Ok(Err(Failure { code: Some(55) }));
        }
        if let Some(r) = self.env_fault_failure(key) {
            self.probe("open_refused_by_fault");
            return r;
        }
        // the same file on several handles: defined for readers among themselves and for
        // sequential writers (OUTPUT / APPEND) among themselves; a reader next to a writer
        // sees whatever its read-ahead buffer happened to hold
        let is_writer = |m: Mode| m == Mode::Output || m == Mode::Append;
        // a reader next to an APPEND writer: the writer only adds bytes behind everything the
        // reader may have looked at, so the reader sees the file as it is when it reads
        // ("EOF(n) is true exactly when nothing is left")
        let reader_and_appender = |a: Mode, b: Mode| {
            (a == Mode::Input && b == Mode::Append) || (a == Mode::Append && b == Mode::Input)
        };
        if self.handles.values().any(|h| h.name == name && reader_and_appender(h.mode, mode)) {
            self.probe("same_file_open_for_input_and_append");
        }
        if self.handles.values().any(|h| {
            h.name == name
                && !((h.mode == Mode::Input && mode == Mode::Input)
                    || (is_writer(h.mode) && is_writer(mode))
                    || reader_and_appender(h.mode, mode))
        }) {
            return Err(Stop::Early(
                "OPEN of a file that is already open on another handle in an incompatible mode"
                    .into(),
            ));
        }
        if self.handles.values().any(|h| h.name == name && is_writer(h.mode)) && is_writer(mode) {
            self.probe("same_file_open_on_two_writing_handles");
        }
        let is_dir = self.dirs.iter().any(|d| d == name);
        let exists = self.store.contains_key(name);
        if mode == Mode::Random {
            self.random_names.insert(name.to_string());
        } else if self.random_names.contains(name) {
            // the byte content of a RANDOM file is only specified through GET
            return Err(Stop::Early("sequential OPEN of a RANDOM file".into()));
        }
        match mode {
            Mode::Input => {
                if is_dir {
                    // opening a directory for input may succeed on the host; reading fails
                    return Err(Stop::Early("OPEN of a directory FOR INPUT".into()));
                }
                if !exists {
                    self.probe("open_missing_input_file");
                    return Ok(Err(Failure { code: Some(53) }));
                }
            }
            Mode::Output | Mode::Append | Mode::Random => {
                if is_dir || !self.parent_exists(name) {
                    self.probe("open_name_that_cannot_be_created");
                    return Ok(Err(Failure { code: None }));
                }
                if mode == Mode::Output || !exists {
                    self.store.insert(name.to_string(), vec![]);
                }
                if mode == Mode::Random {
                    // the byte content is only judged through GET
                    self.store.insert(name.to_string(), vec![]);
                }
                if mode == Mode::Append && exists {
                    self.probe("append_to_existing_file");
                }
            }
        }
        // the implementation's next file instance must be this open
        let inst = self.opens;
        match self.w.files.get(inst as usize) {
            Some(f) if f.path == name => {}
            Some(f) => {
                let p = f.path.clone();
                return self.diverge(
                    Class::FileProtocol,
                    Some(s.id),
                    format!(
                        "OPEN {:?}: implementation's {}-th open is of {:?}",
                        name,
                        inst + 1,
                        p
                    ),
                );
            }
            None => {
                if matches!(self.outcome, Outcome::Killed) {
                    return Err(Stop::Early(KILLED.into()));
                }
                if matches!(self.outcome, Outcome::Panic { .. } | Outcome::Budget) {
                    return Err(Stop::Early("run ended abnormally".into()));
                }
                return self.diverge(
                    Class::FileProtocol,
                    Some(s.id),
                    format!("OPEN {:?} must succeed; the implementation opened no file", name),
                );
            }
        }
        self.opens += 1;
        let rec_len_new = len.unwrap_or(0).max(0) as usize;
        let (records, prior_unknown) = if mode == Mode::Random {
            match self.random_saved.get(name).cloned() {
                Some((rl, recs, pu)) if rl == rec_len_new => {
                    self.probe("random_file_opened_again");
                    (recs, pu)
                }
                Some(_) => (BTreeMap::new(), true),
                None => (BTreeMap::new(), exists),
            }
        } else {
            (BTreeMap::new(), false)
        };
        self.handles.insert(
            handle,
            Handle {
                mode,
                name: name.to_string(),
                inst,
                cursor: 0,
                cursor_known: true,
                wpos: 0,
                len_at_open: self.store.get(name).map(|v| v.len()).unwrap_or(0),
                rec_len: len.unwrap_or(0).max(0) as usize,
                field_lists: vec![],
                current_fields: None,
                records,
                prior_unknown,
                dev: DevState {
                    col: Some(0),
                    ..Default::default()
                },
            },
        );
        let _ = s;
        Ok(Ok(Flow::Next))
    }

    /// INPUT / LINE INPUT from a file or from the console: one rule for both.
    fn exec_input(
        &mut self,
        s: &'a Stmt,
        key: (StmtId, u32),
        handle: Option<i32>,
        vars: &'a [String],
        line: bool,
    ) -> R<Result<Flow, Failure>> {
        // source bytes and cursor
        let faults = self.fired.get(&key).cloned().unwrap_or_default();
        let errored = self.errors.contains_key(&key);
        if let Some(h) = handle {
            if !(1..=255).contains(&h) {
                return Ok(Err(Failure { code: Some(52) }));
            }
            match self.handles.get(&h) {
                None => {
                    self.probe("input_from_closed_handle");
                    return Ok(Err(Failure { code: None }));
                }
                Some(hd) if hd.mode != Mode::Input => {
                    self.probe("input_from_handle_in_wrong_mode");
                    return Ok(Err(Failure { code: None }));
                }
                Some(hd) => {
                    if !hd.cursor_known {
                        return Err(Stop::Early(
                            "read from a handle whose cursor is unknown after a fault".into(),
                        ));
                    }
                    if self.has_unclosed_text(&hd.name) {
                        return Err(Stop::Early(
                            "read of a file while an open APPEND writer has text in it that is not closed yet".into(),
                        ));
                    }
                }
            }
        } else if !self.stdin_known {
            return Err(Stop::Early(
                "console read after a failed console read".into(),
            ));
        }
        // environment faults
        let mut data: Vec<u8> = match handle {
            Some(h) => self
                .store
                .get(&self.handles[&h].name)
                .cloned()
                .unwrap_or_default(),
            None => self.stdin.clone(),
        };
        let mut cursor = match handle {
            Some(h) => self.handles[&h].cursor,
            None => self.stdin_pos,
        };
        let mut hard = false;
        for (class, seam, kind, at) in &faults {
            if *class != OpClass::Read {
                continue;
            }
            match (seam, kind) {
                (SeamKind::Stdin, FaultKind::Eof) => {
                    data.truncate(*at);
                    self.stdin.truncate(*at);
                    self.probe("stdin_eof_injected");
                }
                (SeamKind::Stdin, FaultKind::SubstByte(b)) => {
                    if *at < data.len() {
                        data[*at] = *b;
                        self.stdin[*at] = *b;
                    }
                    self.probe("stdin_byte_substituted");
                }
                (_, FaultKind::ShortRead) => {}
                _ => hard = true,
            }
        }
        if hard {
            if !errored {
                return self.diverge(
                    Class::FileProtocol,
                    Some(s.id),
                    format!(
                        "injected read fault {:?} during statement {}#{} was swallowed",
                        faults, key.0, key.1
                    ),
                );
            }
            self.probe("input_failed_by_fault");
            match handle {
                Some(h) => self.handles.get_mut(&h).unwrap().cursor_known = false,
                None => self.stdin_known = false,
            }
            return Ok(Err(Failure { code: None }));
        }
        // substituted bytes may produce non-ASCII text or unparsable numbers: the
        // contract allows a value or an error; stop judging this run here
        if faults
            .iter()
            .any(|f| matches!(f.2, FaultKind::SubstByte(_)))
        {
            return Err(Stop::Early("input with a substituted byte".into()));
        }
        let mut values: Vec<(String, String)> = vec![];
        let mut failure = None;
        for v in vars {
            if cursor >= data.len() {
                self.probe("input_past_end");
                failure = Some(Failure { code: Some(62) });
                break;
            }
            let text = if line {
                read_line(&data, &mut cursor)
            } else {
                read_field(&data, &mut cursor)
            };
            values.push((v.clone(), text));
        }
        match handle {
            Some(h) => self.handles.get_mut(&h).unwrap().cursor = cursor,
            None => self.stdin_pos = cursor,
        }
        if failure.is_some() && !values.is_empty() && self.handler != HandlerMode::Off {
            // whether the variables read before the failure are assigned is not specified
            return Err(Stop::Early(
                "INPUT failed after some of its variables had been read".into(),
            ));
        }
        for (name, text) in values {
            if name.ends_with('$') {
                self.set_str(&name, text);
            } else {
                let t = text.trim();
                let (lo, hi): (i64, i64) = if name.ends_with('&') {
                    (-2147483648, 2147483647)
                } else {
                    (-32768, 32767)
                };
                let n: i64 = if t.is_empty() {
                    0
                } else {
                    match t.parse::<i64>() {
                        Ok(n) if (lo..=hi).contains(&n) => n,
                        _ => {
                            return Err(Stop::Early(
                                "numeric input the property does not define".into(),
                            ));
                        }
                    }
                };
                self.set_int(&name, n);
            }
            self.mark_input(&name);
        }
        match failure {
            Some(f) => Ok(Err(f)),
            None => Ok(Ok(Flow::Next)),
        }
    }

    /// CLOSE of one handle: the records of a RANDOM file stay in the file.
    fn drop_handle(&mut self, h: i32) {
        if let Some(hd) = self.handles.remove(&h) {
            if hd.mode == Mode::Random {
                self.random_saved
                    .insert(hd.name.clone(), (hd.rec_len, hd.records, hd.prior_unknown));
            }
        }
    }

    fn exec_put(
        &mut self,
        s: &'a Stmt,
        key: (StmtId, u32),
        handle: i32,
        rec: i32,
    ) -> R<Result<Flow, Failure>> {
        let _ = s;
        if !(1..=255).contains(&handle) {
            return Ok(Err(Failure { code: Some(52) }));
        }
        let (fields, rec_len) = match self.handles.get(&handle) {
            None => return Ok(Err(Failure { code: None })),
            Some(h) if h.mode != Mode::Random => return Ok(Err(Failure { code: None })),
            Some(h) => match h.current_fields {
                None => return Ok(Err(Failure { code: None })),
                Some(i) => (h.field_lists[i].clone(), h.rec_len),
            },
        };
        if rec <= 0 || rec_len == 0 {
            return Ok(Err(Failure { code: None }));
        }
        if let Some(r) = self.env_fault_failure(key) {
            // the record may be partially written
            self.handles.get_mut(&handle).unwrap().records.remove(&(rec as i64));
            self.handles
                .get_mut(&handle)
                .unwrap()
                .records
                .insert(-(rec as i64), vec![]); // tombstone: unknown
            return r;
        }
        let mut bytes: Vec<u8> = vec![];
        for (w, name) in &fields {
            let mut v = self.get_str(name).into_bytes();
            v.resize(*w, 0);
            bytes.extend_from_slice(&v);
        }
        let h = self.handles.get_mut(&handle).unwrap();
        h.records.remove(&-(rec as i64));
        h.records.insert(rec as i64, bytes);
        if h.records.len() >= 2 {
            self.probe("put_with_other_records_present");
        }
        Ok(Ok(Flow::Next))
    }

    fn exec_get(
        &mut self,
        s: &'a Stmt,
        key: (StmtId, u32),
        handle: i32,
        rec: i32,
    ) -> R<Result<Flow, Failure>> {
        let _ = s;
        if !(1..=255).contains(&handle) {
            return Ok(Err(Failure { code: Some(52) }));
        }
        let (lists, rec_len, record, unknown) = match self.handles.get(&handle) {
            None => return Ok(Err(Failure { code: None })),
            Some(h) if h.mode != Mode::Random => return Ok(Err(Failure { code: None })),
            Some(h) => (
                h.field_lists.clone(),
                h.rec_len,
                h.records.get(&(rec as i64)).cloned(),
                h.records.contains_key(&-(rec as i64))
                    || (h.prior_unknown && !h.records.contains_key(&(rec as i64))),
            ),
        };
        if rec <= 0 || rec_len == 0 {
            return Ok(Err(Failure { code: None }));
        }
        if let Some(r) = self.env_fault_failure(key) {
            return r;
        }
        if unknown {
            return Err(Stop::Early(
                "GET of a record whose PUT was cut by a fault or that the model never saw".into(),
            ));
        }
        if record.is_some()
            && self
                .random_saved
                .get(&self.handles[&handle].name)
                .map(|(_, r, _)| r.contains_key(&(rec as i64)))
                .unwrap_or(false)
        {
            self.probe("get_of_record_put_before_close");
        }
        // a record never PUT reads as NUL bytes
        let record = record.unwrap_or_default();
        if !record.is_empty() {
            self.probe("get_after_put_same_record");
        }
        for list in &lists {
            let mut start = 0;
            for (w, name) in list {
                let mut piece: Vec<u8> = record
                    .get(start..(start + w).min(record.len()))
                    .map(|x| x.to_vec())
                    .unwrap_or_default();
                piece.resize(*w, 0);
                let text: String = piece.iter().map(|b| *b as char).collect();
                self.set_str(name, text);
                self.mark_input(name);
                start += w;
            }
        }
        Ok(Ok(Flow::Next))
    }
}

enum Recovery {
    Retry,
    Skip,
    Flow(Flow),
}

enum CallEnd {
    Returned(i64),
    Flow(Flow),
}

/// LINE INPUT: the bytes up to the next CR LF | CR | LF (consumed) or the end.
pub fn read_line(data: &[u8], cursor: &mut usize) -> String {
    let mut out = vec![];
    while *cursor < data.len() {
        let b = data[*cursor];
        *cursor += 1;
        if b == b'\r' {
            if *cursor < data.len() && data[*cursor] == b'\n' {
                *cursor += 1;
            }
            break;
        }
        if b == b'\n' {
            break;
        }
        out.push(b);
    }
    String::from_utf8_lossy(&out).into_owned()
}

/// INPUT: skip blanks, take up to `,` or the end of the line, trim.
pub fn read_field(data: &[u8], cursor: &mut usize) -> String {
    while *cursor < data.len() && data[*cursor] == b' ' {
        *cursor += 1;
    }
    let mut out = vec![];
    while *cursor < data.len() {
        let b = data[*cursor];
        *cursor += 1;
        if b == b',' {
            break;
        }
        if b == b'\r' {
            if *cursor < data.len() && data[*cursor] == b'\n' {
                *cursor += 1;
            }
            break;
        }
        if b == b'\n' {
            break;
        }
        out.push(b);
    }
    String::from_utf8_lossy(&out).trim().to_string()
}

// ----------------------------------------------------------------------
// PRINT USING (DESIGN Appendix D, M-DEV)
// ----------------------------------------------------------------------

struct UsingState {
    fmt: Vec<char>,
    idx: usize,
}

impl UsingState {
    fn new(f: &str) -> Self {
        Self {
            fmt: f.chars().collect(),
            idx: 0,
        }
    }

    fn is_field(c: char) -> bool {
        c == '#' || c == '\\' || c == '!'
    }

    /// Renders the next value: literal text up to the next field (cyclically), then the field.
    fn render(&mut self, v: &Val) -> Option<Vec<u8>> {
        if self.fmt.is_empty() || !self.fmt.iter().any(|c| Self::is_field(*c)) {
            return None;
        }
        let mut out = String::new();
        if self.idx >= self.fmt.len() {
            self.idx = 0;
        }
        while !Self::is_field(self.fmt[self.idx]) {
            out.push(self.fmt[self.idx]);
            self.idx = (self.idx + 1) % self.fmt.len();
        }
        match self.fmt[self.idx] {
            '#' => {
                let start = self.idx;
                let mut end = start;
                while end < self.fmt.len() && matches!(self.fmt[end], '#' | ',' | '.') {
                    end += 1;
                }
                let spec: String = self.fmt[start..end].iter().collect();
                self.idx = end;
                let mut parts = spec.splitn(2, '.');
                let int_part = parts.next().unwrap();
                let frac_part = parts.next();
                if let Some(fp) = frac_part {
                    if fp.is_empty() || fp.contains('.') || fp.contains(',') {
                        return None;
                    }
                }
                let width = int_part.chars().count();
                let commas = int_part.contains(',');
                let decimals = frac_part.map(|f| f.len()).unwrap_or(0);
                let val: f64 = match v {
                    Val::I(i) => *i as f64,
                    Val::F(f) => *f,
                    Val::S(_) => return None,
                };
                let scaled = (val.abs() * 10f64.powi(decimals as i32)).round();
                let int_digits = (scaled / 10f64.powi(decimals as i32)).floor() as i64;
                let frac_digits = (scaled as i64) % 10i64.pow(decimals as u32);
                let mut digits = int_digits.to_string();
                if commas {
                    let mut g = String::new();
                    let n = digits.len();
                    for (i, ch) in digits.chars().enumerate() {
                        if i > 0 && (n - i) % 3 == 0 {
                            g.push(',');
                        }
                        g.push(ch);
                    }
                    digits = g;
                }
                if val < 0.0 {
                    digits.insert(0, '-');
                }
                if digits.len() > width {
                    return None; // does not fit: not judged
                }
                let mut s = " ".repeat(width - digits.len());
                s.push_str(&digits);
                if decimals > 0 {
                    s.push('.');
                    s.push_str(&format!("{:0width$}", frac_digits, width = decimals));
                }
                out.push_str(&s);
            }
            '\\' => {
                let start = self.idx;
                let mut end = start + 1;
                while end < self.fmt.len() && self.fmt[end] == ' ' {
                    end += 1;
                }
                if end >= self.fmt.len() || self.fmt[end] != '\\' {
                    return None;
                }
                let width = end - start + 1;
                self.idx = end + 1;
                let sv = match v {
                    Val::S(x) => x.clone(),
                    _ => return None,
                };
                let mut t: String = sv.chars().take(width).collect();
                while t.chars().count() < width {
                    t.push(' ');
                }
                out.push_str(&t);
            }
            '!' => {
                self.idx += 1;
                let sv = match v {
                    Val::S(x) => x.clone(),
                    _ => return None,
                };
                out.push(sv.chars().next()?);
            }
            _ => unreachable!(),
        }
        Some(out.into_bytes())
    }

    /// Literal text after the last field used, up to the next field.
    fn finish(&mut self) -> Vec<u8> {
        let mut out = String::new();
        while self.idx < self.fmt.len() && !Self::is_field(self.fmt[self.idx]) {
            out.push(self.fmt[self.idx]);
            self.idx += 1;
        }
        out.into_bytes()
    }
}
