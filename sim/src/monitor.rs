//! C15 dynamic invariants, evaluated by the step observer while a run proceeds.
//!
//! I2  region-relative depth constancy: every time control reaches the start of
//!     a statement, the depths of the VM's stacks relative to the enclosing
//!     region (procedure activation, GOSUB body, handler invocation) are the
//!     same as on every other visit of that statement. This is "whatever a
//!     statement pushes is popped again on every path" and "no growth with the
//!     iteration count", including the paths that leave a statement through an
//!     error and come back through RESUME / RESUME NEXT.
//! I3  at the final Halt of the main module, with no activation pending, every
//!     stack is back at its initial depth.
//! I4  after a call has returned (PopStack), context depth and stacktrace length
//!     equal their values before BeginCollectArguments.

use std::collections::HashMap;

use rusty_basic::instruction_generator::{Instruction, InstructionGeneratorResult};
use rusty_basic::interpreter::verif::{VmDepths, VmDispatch};

pub const NDEPTH: usize = 7;
pub const DEPTH_NAMES: [&str; NDEPTH] = [
    "value_stack",
    "register_stack",
    "var_path_stack",
    "by_ref_stack",
    "context_states",
    "stacktrace",
    "function_results",
];

fn vec_of(d: &VmDepths) -> [i64; NDEPTH] {
    [
        d.value_stack as i64,
        d.register_stack as i64,
        d.var_path_stack as i64,
        d.by_ref_stack as i64,
        d.context_states as i64,
        d.stacktrace as i64,
        d.function_results as i64,
    ]
}

#[derive(Clone, Copy, Debug, PartialEq, Eq)]
enum RegionKind {
    Main,
    Activation,
    Gosub,
    Handler,
}

#[derive(Clone, Copy, Debug)]
struct Region {
    kind: RegionKind,
    base: [i64; NDEPTH],
}

#[derive(Clone, Debug, PartialEq, Eq)]
pub struct MonViolation {
    /// "I2" | "I3" | "I4" | "S1".."S6"
    pub kind: &'static str,
    pub pc: usize,
    /// which stack (index into DEPTH_NAMES) when applicable
    pub which: Option<usize>,
    pub detail: String,
}

#[derive(Clone, Debug, Default)]
pub struct MonitorReport {
    pub violations: Vec<MonViolation>,
    pub statement_visits: u64,
    pub distinct_statement_pcs: usize,
    pub revisits_checked: u64,
    pub calls_checked: u64,
    pub max_region_depth: usize,
    pub error_dispatches: u64,
    pub resumes: u64,
    pub halt_checked: bool,
    pub tainted: bool,
    pub labels: usize,
    pub branches: usize,
}

impl MonitorReport {
    pub fn merge(&mut self, other: MonitorReport) {
        self.violations.extend(other.violations);
        self.statement_visits += other.statement_visits;
        self.distinct_statement_pcs += other.distinct_statement_pcs;
        self.revisits_checked += other.revisits_checked;
        self.calls_checked += other.calls_checked;
        self.max_region_depth = self.max_region_depth.max(other.max_region_depth);
        self.error_dispatches += other.error_dispatches;
        self.resumes += other.resumes;
        self.halt_checked |= other.halt_checked;
        self.tainted |= other.tainted;
        self.labels += other.labels;
        self.branches += other.branches;
    }
}

struct CallRecord {
    region_depth: usize,
    context_states: usize,
    stacktrace: usize,
    pc: usize,
}

pub struct Monitor {
    regions: Vec<Region>,
    seen: HashMap<usize, [i64; NDEPTH]>,
    calls: Vec<CallRecord>,
    /// a call whose PopStack has just executed; checked at the next step
    pending_call_check: Option<CallRecord>,
    pending_handler: bool,
    nested_handler_entries: usize,
    initial: Option<VmDepths>,
    final_halt_pc: Option<usize>,
    report: MonitorReport,
    /// set when the program did something after which region tracking is no
    /// longer meaningful (RESUME label out of a subprogram)
    tainted: bool,
    strict_end: bool,
}

impl Monitor {
    pub fn new(gen_result: &InstructionGeneratorResult, strict_end: bool) -> Self {
        // the final Halt of the main module is the one with the synthetic position
        let final_halt_pc = gen_result.instructions.iter().position(|i| {
            matches!(i.element, Instruction::Halt) && {
                use rusty_common::HasPos;
                i.pos().row() == u32::MAX
            }
        });
        Self {
            regions: vec![],
            seen: HashMap::new(),
            calls: vec![],
            pending_call_check: None,
            pending_handler: false,
            nested_handler_entries: 0,
            initial: None,
            final_halt_pc,
            report: MonitorReport::default(),
            tainted: false,
            strict_end,
        }
    }

    fn violation(&mut self, kind: &'static str, pc: usize, which: Option<usize>, detail: String) {
        if self.report.violations.len() < 8 {
            self.report.violations.push(MonViolation {
                kind,
                pc,
                which,
                detail,
            });
        }
    }

    pub fn on_step(
        &mut self,
        pc: usize,
        instruction: &Instruction,
        is_statement_start: bool,
        depths: &VmDepths,
    ) {
        let v = vec_of(depths);
        if self.initial.is_none() {
            self.initial = Some(*depths);
            self.regions.push(Region {
                kind: RegionKind::Main,
                base: v,
            });
        }
        if self.pending_handler {
            self.pending_handler = false;
            self.regions.push(Region {
                kind: RegionKind::Handler,
                base: v,
            });
        }
        // I4: the call that has just returned
        if let Some(rec) = self.pending_call_check.take() {
            if !self.tainted {
                self.report.calls_checked += 1;
                if depths.context_states != rec.context_states {
                    self.violation(
                        "I4",
                        rec.pc,
                        Some(4),
                        format!(
                            "context depth {} after the call begun at pc {} returned, was {} before",
                            depths.context_states, rec.pc, rec.context_states
                        ),
                    );
                }
                if depths.stacktrace != rec.stacktrace {
                    self.violation(
                        "I4",
                        rec.pc,
                        Some(5),
                        format!(
                            "stacktrace length {} after the call begun at pc {} returned, was {} before",
                            depths.stacktrace, rec.pc, rec.stacktrace
                        ),
                    );
                }
            }
        }
        self.report.max_region_depth = self.report.max_region_depth.max(self.regions.len());

        // I2
        if is_statement_start {
            self.report.statement_visits += 1;
            // a label is where the VM cuts the stacks back after a GOTO out of a block
            // (TrimStacks follows it): depths are sampled at the statement after it
            let is_label = matches!(instruction, Instruction::Label(_));
            if !self.tainted && !is_label {
                let base = self.regions.last().unwrap().base;
                let mut rel = [0i64; NDEPTH];
                for i in 0..NDEPTH {
                    rel[i] = v[i] - base[i];
                }
                match self.seen.get(&pc) {
                    None => {
                        self.seen.insert(pc, rel);
                    }
                    Some(prev) => {
                        self.report.revisits_checked += 1;
                        if *prev != rel {
                            let prev = *prev;
                            let which = (0..NDEPTH).find(|i| prev[*i] != rel[*i]);
                            self.violation(
                                "I2",
                                pc,
                                which,
                                format!(
                                    "statement at pc {} reached with region-relative depths {:?}, earlier visit had {:?} (order: {:?})",
                                    pc, rel, prev, DEPTH_NAMES
                                ),
                            );
                            // report once per pc: adopt the new vector
                            self.seen.insert(pc, rel);
                        }
                    }
                }
            }
        }

        // I3 (the END statement of a generated scenario is always at the top level of the
        // main module, so it is held to the same standard as the final Halt)
        let is_end = self.strict_end && matches!(instruction, Instruction::Halt);
        if (Some(pc) == self.final_halt_pc || is_end) && !self.tainted {
            let only_main = self.regions.len() == 1;
            if only_main {
                self.report.halt_checked = true;
                let init = self.initial.unwrap();
                let iv = vec_of(&init);
                for i in 0..NDEPTH {
                    if v[i] != iv[i] {
                        self.violation(
                            "I3",
                            pc,
                            Some(i),
                            format!(
                                "{} has depth {} at the final Halt, {} at start",
                                DEPTH_NAMES[i], v[i], iv[i]
                            ),
                        );
                    }
                }
                if depths.return_address_stack != init.return_address_stack {
                    self.violation(
                        "I3",
                        pc,
                        None,
                        format!(
                            "return_address_stack has depth {} at the final Halt",
                            depths.return_address_stack
                        ),
                    );
                }
            }
        }

        // I3 for any END of the main module (also in programs that may END inside loops):
        // no statement of the main module is under way, so nobody waits for a function
        // result any more
        if matches!(instruction, Instruction::Halt)
            && !self.tainted
            && self.regions.len() == 1
            && Some(pc) != self.final_halt_pc
            && !self.strict_end
        {
            let init = self.initial.unwrap();
            if depths.function_results != init.function_results {
                self.violation(
                    "I3",
                    pc,
                    Some(6),
                    format!(
                        "{} function results are pending at END, {} at start",
                        depths.function_results, init.function_results
                    ),
                );
            }
        }

        // region / call tracking from the instruction about to execute
        match instruction {
            Instruction::BeginCollectArguments => {
                self.calls.push(CallRecord {
                    region_depth: self.regions.len(),
                    context_states: depths.context_states,
                    stacktrace: depths.stacktrace,
                    pc,
                });
            }
            Instruction::AllocateArrayIntoA(_) => {
                // array allocation consumes the argument state itself
                if let Some(top) = self.calls.last() {
                    if top.region_depth == self.regions.len() {
                        self.calls.pop();
                    }
                }
            }
            Instruction::PopStack => {
                if let Some(top) = self.calls.last() {
                    if top.region_depth == self.regions.len() {
                        self.pending_call_check = self.calls.pop();
                    }
                }
            }
            Instruction::PushRet(_) => {
                self.regions.push(Region {
                    kind: RegionKind::Activation,
                    base: v,
                });
            }
            Instruction::PopRet => {
                // leave the innermost activation (and whatever GOSUB bodies it left open)
                if let Some(idx) = self
                    .regions
                    .iter()
                    .rposition(|r| r.kind == RegionKind::Activation)
                {
                    // a handler region above the activation means the subprogram is
                    // being left from inside a handler: undefined, stop judging
                    if self.regions[idx..]
                        .iter()
                        .any(|r| r.kind == RegionKind::Handler)
                    {
                        self.tainted = true;
                    }
                    self.regions.truncate(idx);
                    let depth = self.regions.len();
                    self.calls.retain(|c| c.region_depth <= depth);
                }
            }
            Instruction::GoSub(_) => {
                self.regions.push(Region {
                    kind: RegionKind::Gosub,
                    base: v,
                });
            }
            Instruction::Return(_) => {
                // the innermost GOSUB body of the current activation, if any
                let mut i = self.regions.len();
                let mut crossed_handler = false;
                while i > 0 {
                    i -= 1;
                    match self.regions[i].kind {
                        RegionKind::Gosub => {
                            self.regions.truncate(i);
                            if crossed_handler {
                                // a handler left by RETURN instead of RESUME: it stays
                                // active, its context stays where it is - by design, so the
                                // depths of this run say nothing
                                self.tainted = true;
                            }
                            break;
                        }
                        RegionKind::Handler => {
                            crossed_handler = true;
                            continue;
                        }
                        _ => break,
                    }
                }
            }
            Instruction::Resume | Instruction::ResumeNext | Instruction::ResumeLabel(_) => {
                if depths.has_last_error_address {
                    self.report.resumes += 1;
                    if let Some(idx) = self
                        .regions
                        .iter()
                        .rposition(|r| r.kind == RegionKind::Handler)
                    {
                        self.regions.truncate(idx);
                    }
                    if let Instruction::ResumeLabel(_) = instruction {
                        // RESUME label continues in the main module: the activations that
                        // were active when the error occurred are abandoned (and unwound)
                        if let Some(idx) = self
                            .regions
                            .iter()
                            .position(|r| r.kind == RegionKind::Activation)
                        {
                            self.regions.truncate(idx);
                        }
                        self.calls.clear();
                    }
                }
            }
            _ => {}
        }
    }

    pub fn on_error(&mut self, pc: usize, dispatch: &VmDispatch, depths: &VmDepths) {
        self.report.error_dispatches += 1;
        // I5: an error raised while an error handler is running (before its RESUME) must
        // not be dispatched to the handler again: every round pushes one more handler
        // context and nesting base, the stacks grow with the iteration count and the
        // program never ends
        if let VmDispatch::Handler(_) = dispatch {
            if depths.has_last_error_address {
                self.nested_handler_entries += 1;
            } else {
                self.nested_handler_entries = 0;
            }
            // (one handler entered from inside another is nesting, not growth; three deep
            // without a RESUME in between is the pattern of a handler that is entered for
            // ever)
            if depths.has_last_error_address && self.nested_handler_entries >= 3 {
                self.violation(
                    "I5",
                    pc,
                    None,
                    format!(
                        "error raised at pc {} while an error handler is active is dispatched to the handler again, for the third time without a RESUME in between (context depth {}): the handler is entered forever, one context deeper each time",
                        pc, depths.context_states
                    ),
                );
            }
        }
        // the statement under way in the current region is abandoned
        let depth = self.regions.len();
        self.calls.retain(|c| c.region_depth < depth);
        self.pending_call_check = None;
        if let VmDispatch::Handler(_) = dispatch {
            self.pending_handler = true;
        }
    }

    pub fn finish(&mut self, _ok: bool) {
        self.report.distinct_statement_pcs = self.seen.len();
        self.report.tainted = self.tainted;
    }

    pub fn take_report(&mut self) -> MonitorReport {
        std::mem::take(&mut self.report)
    }
}
