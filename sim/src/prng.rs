//! Seeded PRNG: splitmix64 for seeding / mixing, xoshiro256** for streams.
//! Every random choice of the simulator is drawn from a stream derived from
//! VERIF_SEED; nothing else (clock, thread id, hash order) feeds a choice.

#[derive(Clone, Debug)]
pub struct Rng {
    s: [u64; 4],
}

pub fn splitmix64(state: &mut u64) -> u64 {
    *state = state.wrapping_add(0x9E37_79B9_7F4A_7C15);
    let mut z = *state;
    z = (z ^ (z >> 30)).wrapping_mul(0xBF58_476D_1CE4_E5B9);
    z = (z ^ (z >> 27)).wrapping_mul(0x94D0_49BB_1331_11EB);
    z ^ (z >> 31)
}

/// Mixes several integers into one seed.
pub fn mix(parts: &[u64]) -> u64 {
    let mut st = 0x243F_6A88_85A3_08D3u64;
    let mut acc = 0u64;
    for p in parts {
        st ^= *p;
        acc = acc.rotate_left(17) ^ splitmix64(&mut st);
    }
    acc
}

impl Rng {
    pub fn new(seed: u64) -> Self {
        let mut st = seed;
        let s = [
            splitmix64(&mut st),
            splitmix64(&mut st),
            splitmix64(&mut st),
            splitmix64(&mut st),
        ];
        Self { s }
    }

    /// Derives an independent sub-stream.
    pub fn fork(&mut self, tag: u64) -> Rng {
        let a = self.next_u64();
        Rng::new(mix(&[a, tag]))
    }

    pub fn next_u64(&mut self) -> u64 {
        let result = self.s[1].wrapping_mul(5).rotate_left(7).wrapping_mul(9);
        let t = self.s[1] << 17;
        self.s[2] ^= self.s[0];
        self.s[3] ^= self.s[1];
        self.s[1] ^= self.s[2];
        self.s[0] ^= self.s[3];
        self.s[2] ^= t;
        self.s[3] = self.s[3].rotate_left(45);
        result
    }

    /// Uniform in 0..n (n > 0).
    pub fn below(&mut self, n: usize) -> usize {
        debug_assert!(n > 0);
        (self.next_u64() % (n as u64)) as usize
    }

    /// Uniform in lo..=hi.
    pub fn range(&mut self, lo: i64, hi: i64) -> i64 {
        debug_assert!(lo <= hi);
        lo + (self.next_u64() % ((hi - lo + 1) as u64)) as i64
    }

    /// True with probability num/den.
    pub fn chance(&mut self, num: u32, den: u32) -> bool {
        (self.next_u64() % den as u64) < num as u64
    }

    pub fn pick<'a, T>(&mut self, items: &'a [T]) -> &'a T {
        &items[self.below(items.len())]
    }

    /// Picks an index according to integer weights.
    pub fn weighted(&mut self, weights: &[u32]) -> usize {
        let total: u64 = weights.iter().map(|w| *w as u64).sum();
        debug_assert!(total > 0);
        let mut x = self.next_u64() % total;
        for (i, w) in weights.iter().enumerate() {
            if x < *w as u64 {
                return i;
            }
            x -= *w as u64;
        }
        weights.len() - 1
    }
}

/// FNV-1a 64-bit, used for digests of event logs.
#[derive(Clone, Copy)]
pub struct Fnv(pub u64);

impl Default for Fnv {
    fn default() -> Self {
        Fnv(0xcbf2_9ce4_8422_2325)
    }
}

impl Fnv {
    pub fn bytes(&mut self, b: &[u8]) {
        for x in b {
            self.0 ^= *x as u64;
            self.0 = self.0.wrapping_mul(0x0000_0100_0000_01B3);
        }
    }
    pub fn u64(&mut self, v: u64) {
        self.bytes(&v.to_le_bytes());
    }
    pub fn str(&mut self, s: &str) {
        self.bytes(s.as_bytes());
        self.bytes(&[0xff]);
    }
}
