//! Raw-program workloads (no reference model): the repository corpus and a
//! generator of I/O-facing statement soup (W-IO). Oracles: no internal failure
//! (C08) and the VM monitor (C15).

use std::collections::{BTreeMap, BTreeSet};

use serde::{Deserialize, Serialize};

use crate::case::{FaultSer, Found};
use crate::model::Class;
use crate::prng::{Fnv, Rng};
use crate::runner::{Outcome, parse, run_program};
use crate::world::{
    EventKind, Fault, FaultAddr, FaultKind, FsStore, IoKind, OpClass, SeamKind, World,
};

#[derive(Clone, Debug, Serialize, Deserialize)]
pub struct RawCase {
    pub text: String,
    pub stdin: Vec<u8>,
    pub files: Vec<(String, Vec<u8>)>,
    pub plan: Vec<FaultSer>,
    pub origin: String,
}

pub struct RawRun {
    pub found: Vec<Found>,
    pub outcome: Outcome,
    pub accepted: bool,
    pub digest: u64,
    pub instr: u64,
    pub io_calls: u64,
    pub fired: Vec<(OpClass, SeamKind, FaultKind)>,
    pub errors: u64,
    /// (class, seam kind) -> number of operations in this run
    pub ops: BTreeMap<(OpClass, SeamKind), u32>,
    pub monitor_visits: u64,
    pub monitor_revisits: u64,
}

pub const RAW_BUDGET: u64 = 150_000;

pub fn run_raw(case: &RawCase, program: Option<&rusty_parser::Program>) -> RawRun {
    let mut out = RawRun {
        found: vec![],
        outcome: Outcome::Ok,
        accepted: false,
        digest: 0,
        instr: 0,
        io_calls: 0,
        fired: vec![],
        errors: 0,
        ops: BTreeMap::new(),
        monitor_visits: 0,
        monitor_revisits: 0,
    };
    crate::watch::begin_raw(case);
    let _watch = crate::watch::Guard;
    let owned;
    let program = match program {
        Some(p) => p,
        None => match parse(&case.text) {
            Ok(p) => {
                owned = p;
                &owned
            }
            Err(o) => {
                out.outcome = o;
                return out;
            }
        },
    };
    let mut fs = FsStore::default();
    for (n, c) in &case.files {
        fs.put(n, c);
    }
    fs.dirs = vec!["DIRX".into()];
    let faults: Vec<Fault> = case.plan.iter().map(|f| f.to_fault()).collect();
    let world = World::new(vec![], case.stdin.clone(), fs, faults).shared();
    let r = run_program(program, &world, RAW_BUDGET);
    let w = world.borrow();
    out.outcome = r.outcome.clone();
    out.accepted = !matches!(r.outcome, Outcome::LintError(_) | Outcome::ParseError(_));
    out.digest = w.digest();
    out.instr = w.instr;
    out.io_calls = w.io_calls;
    out.fired = w
        .fired
        .iter()
        .map(|f| (f.fault.class, f.fault.seam, f.fault.kind))
        .collect();
    out.errors = r.monitor.error_dispatches;
    out.monitor_visits = r.monitor.statement_visits;
    out.monitor_revisits = r.monitor.revisits_checked;
    for ev in &w.log {
        let k = match &ev.kind {
            EventKind::Write { seam, .. } => (OpClass::Write, seam.kind()),
            EventKind::Flush { seam, .. } => (OpClass::Flush, seam.kind()),
            EventKind::Read { seam, .. } => (OpClass::Read, seam.kind()),
            EventKind::Seek { seam, .. } => (OpClass::Seek, seam.kind()),
            EventKind::Open { .. } => (OpClass::Open, SeamKind::Fs),
            EventKind::Remove { .. } => (OpClass::Remove, SeamKind::Fs),
            EventKind::Rename { .. } => (OpClass::Rename, SeamKind::Fs),
            _ => continue,
        };
        *out.ops.entry(k).or_insert(0) += 1;
    }
    if let Outcome::Panic {
        stage,
        message,
        location,
    } = &r.outcome
    {
        // a panic of the linter is not about an *accepted* program, but the program never
        // got a verdict either: C08 speaks of accepted programs, so only generate /
        // interpret failures count
        if *stage == "generate" || *stage == "interpret" {
            let stem: String = message.chars().take(60).collect();
            out.found.push(Found {
                property: "C08",
                class: Class::Internal,
                key: format!("{}|{}", location, stem),
                prog: 0,
                stmt: None,
                detail: format!("internal failure in {} at {}: {}", stage, location, message),
            });
        }
    }
    if let Outcome::Panic {
        stage: "interpret",
        message,
        location,
    } = &r.outcome
    {
        let stack_words = [
            "underflow",
            "Expected normal state",
            "Expected argument state",
            "Expected state with arguments",
            "removal index",
            "Should have a VarPath",
            "Should have function result",
            "Not collecting arguments",
        ];
        let regs = location.contains("interpreter/main.rs") && message.contains("Option::unwrap()");
        if regs || stack_words.iter().any(|w| message.contains(w)) {
            out.found.push(Found {
                property: "C15",
                class: Class::Stack,
                key: format!("I1:{}", message.chars().take(40).collect::<String>()),
                prog: 0,
                stmt: None,
                detail: format!(
                    "a VM stack was popped while empty (or a call frame was missing): {} at {}",
                    message, location
                ),
            });
        }
    }
    // after a GOTO into a block the statements of the block are reached with other
    // depths than on the way through the block's start: I2 has nothing to say there
    let jumps_into_blocks = case.origin.contains("jumps into blocks");
    for v in &r.monitor.violations {
        if jumps_into_blocks && v.kind == "I2" {
            continue;
        }
        out.found.push(Found {
            property: "C15",
            class: Class::Stack,
            key: match v.which {
                Some(i) => format!("{}:{}", v.kind, crate::monitor::DEPTH_NAMES[i]),
                None => v.kind.to_string(),
            },
            prog: 0,
            stmt: None,
            detail: v.detail.clone(),
        });
    }
    out
}

// ----------------------------------------------------------------------
// corpus
// ----------------------------------------------------------------------

fn basic_keywords() -> &'static [&'static str] {
    &[
        "PRINT", "INPUT", "DIM", "FOR ", "IF ", "SUB ", "FUNCTION", "OPEN", "CLOSE", "GOTO",
        "GOSUB", "SELECT", "WHILE", "DO", "CONST", "TYPE ", "DATA", "READ", "LET ", "END",
        "ON ERROR", "DECLARE", "LSET", "FIELD", "PUT", "GET", "KILL", "NAME", "ENVIRON",
        "CLS", "LOCATE", "COLOR", "VIEW", "WIDTH", "POKE", "DEF", "=",
    ]
}

/// Extracts the string literals of a Rust source file.
fn rust_strings(src: &str) -> Vec<String> {
    let b = src.as_bytes();
    let mut out = vec![];
    let mut i = 0;
    while i < b.len() {
        // line comments
        if b[i] == b'/' && i + 1 < b.len() && b[i + 1] == b'/' {
            while i < b.len() && b[i] != b'\n' {
                i += 1;
            }
            continue;
        }
        // char literals such as '"'
        if b[i] == b'\'' && i + 2 < b.len() {
            if b[i + 1] == b'\\' && i + 3 < b.len() && b[i + 3] == b'\'' {
                i += 4;
                continue;
            }
            if b[i + 2] == b'\'' {
                i += 3;
                continue;
            }
        }
        if b[i] == b'r' && i + 1 < b.len() && (b[i + 1] == b'"' || b[i + 1] == b'#') {
            // raw string
            let mut j = i + 1;
            let mut hashes = 0;
            while j < b.len() && b[j] == b'#' {
                hashes += 1;
                j += 1;
            }
            if j < b.len() && b[j] == b'"' {
                let start = j + 1;
                let mut k = start;
                let closing: Vec<u8> = std::iter::once(b'"')
                    .chain(std::iter::repeat_n(b'#', hashes))
                    .collect();
                while k + closing.len() <= b.len() && &b[k..k + closing.len()] != closing.as_slice()
                {
                    k += 1;
                }
                if k + closing.len() <= b.len() {
                    out.push(String::from_utf8_lossy(&b[start..k]).to_string());
                    i = k + closing.len();
                    continue;
                }
            }
        }
        if b[i] == b'"' {
            let mut k = i + 1;
            let mut s = String::new();
            let mut ok = false;
            while k < b.len() {
                match b[k] {
                    b'"' => {
                        ok = true;
                        break;
                    }
                    b'\\' if k + 1 < b.len() => {
                        match b[k + 1] {
                            b'n' => s.push('\n'),
                            b'r' => s.push('\r'),
                            b't' => s.push('\t'),
                            b'"' => s.push('"'),
                            b'\\' => s.push('\\'),
                            b'0' => s.push('\0'),
                            b'\n' => {
                                // line continuation: skip leading blanks of the next line
                                k += 2;
                                while k < b.len() && (b[k] == b' ' || b[k] == b'\t') {
                                    k += 1;
                                }
                                continue;
                            }
                            other => {
                                s.push('\\');
                                s.push(other as char);
                            }
                        }
                        k += 2;
                        continue;
                    }
                    c => s.push(c as char),
                }
                k += 1;
            }
            if ok {
                out.push(s);
                i = k + 1;
                continue;
            }
        }
        i += 1;
    }
    out
}

fn walk_rs(dir: &std::path::Path, out: &mut Vec<std::path::PathBuf>) {
    if let Ok(rd) = std::fs::read_dir(dir) {
        let mut entries: Vec<_> = rd.flatten().map(|e| e.path()).collect();
        entries.sort();
        for p in entries {
            if p.is_dir() {
                if p.file_name().map(|n| n == "target").unwrap_or(false) {
                    continue;
                }
                walk_rs(&p, out);
            } else if p.extension().map(|e| e == "rs").unwrap_or(false) {
                out.push(p);
            }
        }
    }
}

pub struct Corpus {
    pub programs: Vec<(String, String)>,
    pub candidates: usize,
    pub skipped_inkey: usize,
}

/// Harvests program texts from the repository's tests and fixtures (working tree).
pub fn harvest(repo: &str) -> Corpus {
    let mut texts: BTreeSet<String> = BTreeSet::new();
    let mut origin: BTreeMap<String, String> = BTreeMap::new();
    let mut files = vec![];
    for sub in ["rusty_basic/src", "rusty_linter/src", "rusty_parser/src"] {
        walk_rs(&std::path::Path::new(repo).join(sub), &mut files);
    }
    let mut candidates = 0;
    for f in &files {
        let src = match std::fs::read_to_string(f) {
            Ok(s) => s,
            Err(_) => continue,
        };
        for s in rust_strings(&src) {
            let up = s.to_uppercase();
            if s.len() < 5 || s.len() > 4000 {
                continue;
            }
            if !basic_keywords().iter().any(|k| up.contains(k)) {
                continue;
            }
            candidates += 1;
            if texts.insert(s.clone()) {
                origin.insert(s, f.display().to_string());
            }
        }
    }
    if let Ok(rd) = std::fs::read_dir(std::path::Path::new(repo).join("fixtures")) {
        let mut entries: Vec<_> = rd.flatten().map(|e| e.path()).collect();
        entries.sort();
        for p in entries {
            if let Ok(s) = std::fs::read_to_string(&p) {
                candidates += 1;
                if texts.insert(s.clone()) {
                    origin.insert(s, p.display().to_string());
                }
            }
        }
    }
    let mut skipped_inkey = 0;
    let mut programs = vec![];
    for t in texts {
        if t.to_uppercase().contains("INKEY") {
            skipped_inkey += 1;
            continue;
        }
        let o = origin.get(&t).cloned().unwrap_or_default();
        programs.push((t, o));
    }
    Corpus {
        programs,
        candidates,
        skipped_inkey,
    }
}

pub fn stdin_variants(rng: &mut Rng) -> Vec<Vec<u8>> {
    let mut v = vec![vec![], b"1\n2\n3\n4\n5\n".to_vec(), b"abc,def\r\nxyz\r\n".to_vec()];
    v.push(token_soup(rng, 24));
    v
}

pub fn token_soup(rng: &mut Rng, n: usize) -> Vec<u8> {
    let toks: [&[u8]; 28] = [
        // (sequences that are cut off: a lead byte with nothing behind it, before a separator)
        b"\xc3", b"\xe2\x82", b"\xf0\x9f",
        b"\"", b"\"\"", b"\"a,b\"", b"\"x",
        b"1", b"23", b"-7", b"99999", b"1.5", b"abc", b"\"q\"", b",", b",", b" ", b"\r\n",
        b"\n", b"\r", b"\xff", b"\0", b"1e40", b"nan", b"inf", b"-inf", b"1e999", b"NaN",
    ];
    let mut out = vec![];
    for _ in 0..rng.below(n + 1) {
        out.extend_from_slice(toks[rng.below(toks.len())]);
    }
    if rng.chance(1, 8) {
        for _ in 0..rng.below(8) {
            out.push(rng.below(256) as u8);
        }
    }
    out
}

pub fn global_fault_kinds(class: OpClass, seam: SeamKind) -> Vec<FaultKind> {
    match class {
        OpClass::Write => vec![
            FaultKind::ShortWrite(50),
            FaultKind::WriteZero,
            FaultKind::Interrupted,
            FaultKind::Error(IoKind::StorageFull),
        ],
        OpClass::Flush => vec![FaultKind::Error(IoKind::Other)],
        OpClass::Read => {
            if seam == SeamKind::Stdin {
                vec![
                    FaultKind::Eof,
                    FaultKind::Interrupted,
                    FaultKind::SubstByte(0xff),
                ]
            } else {
                vec![
                    FaultKind::Interrupted,
                    FaultKind::Error(IoKind::Other),
                    FaultKind::ShortRead,
                ]
            }
        }
        OpClass::Seek => vec![FaultKind::Error(IoKind::Other)],
        OpClass::Open => vec![FaultKind::Error(IoKind::PermissionDenied)],
        OpClass::Remove | OpClass::Rename => vec![FaultKind::Error(IoKind::PermissionDenied)],
    }
}

pub fn global_fault(class: OpClass, seam: SeamKind, nth: u32, kind: FaultKind) -> FaultSer {
    FaultSer::from_fault(&Fault {
        addr: FaultAddr::Global { nth },
        class,
        seam,
        kind,
    })
}

// ----------------------------------------------------------------------
// W-IO: statement soup over the I/O-facing repertoire
// ----------------------------------------------------------------------

pub fn gen_wio(rng: &mut Rng) -> RawCase {
    let mut lines: Vec<String> = vec![];
    let handler = rng.chance(1, 2);
    if handler {
        lines.push("ON ERROR GOTO Hnd".into());
    } else if rng.chance(1, 4) {
        lines.push("ON ERROR RESUME NEXT".into());
    }
    lines.push("DIM AR%(1 TO 3)".into());
    if rng.chance(1, 2) {
        lines.push("DATA 1, \"two\", 3.5, -4, 7".into());
    }
    let names = ["A.TXT", "B.TXT", "MISSING.TXT", "DIRX", "NODIR/X.TXT", ""];
    let ivars = ["A%", "B&", "C!", "D#", "AR%(1)", "AR%(9)"];
    let svars = ["E$", "F$"];
    let ints = ["0", "1", "-1", "2", "3", "255", "256", "300", "32767", "40000", "-32768", "A%", "LEN(E$)"];
    let strs = ["\"\"", "\"a\"", "\"Hello\"", "E$", "F$", "CHR$(0)", "CHR$(13)", "SPACE$(3)", "STR$(A%)", "\"##.##\"", "\"\\  \\\"", "\"!\"", "\"#,###.#\"", "\"A=B\"", "\"A\"", "\"=B\"", "\"A=\" + CHR$(0)", "CHR$(0) + \"=1\""];
    let n = 2 + rng.below(14);
    let mut dimno = 0;
    if rng.chance(1, 40) {
        // a whole array of STRING * n where an array of strings is expected
        lines.push("DIM FB(1 TO 2) AS STRING * 5\nSArr FB()".into());
    }
    for _ in 0..n {
        let h = *rng.pick(&["1", "2", "3", "4", "255"]);
        let i1 = *rng.pick(&ints);
        let i2 = *rng.pick(&ints);
        let s1 = *rng.pick(&strs);
        let s2 = *rng.pick(&strs);
        let iv = *rng.pick(&ivars);
        let sv = *rng.pick(&svars);
        let name = *rng.pick(&names);
        // built-in call with arguments of arbitrary type and shape: the checker either
        // rejects the program or the call must not fail internally
        let fns = [
            "UCASE$", "LCASE$", "LTRIM$", "RTRIM$", "LEN", "VAL", "STR$", "CHR$", "SPACE$",
            "LEFT$", "RIGHT$", "MID$", "INSTR", "STRING$", "EOF", "ENVIRON$", "LBOUND",
            "UBOUND", "PEEK", "VARPTR", "VARSEG", "CVD", "MKD$", "Twice",
        ];
        let anyargs = ["5", "\"a\"", "A%", "E$", "AR%", "AR%(1)", "1.5", "D#", "(A%)", "(E$)", "-1", "70000"];
        let call = {
            let f = *rng.pick(&fns);
            let n = 1 + rng.below(3);
            let mut a = vec![];
            for _ in 0..n {
                a.push(*rng.pick(&anyargs));
            }
            format!("{}({})", f, a.join(", "))
        };
        let pick = if rng.chance(1, 30) { 40 + rng.below(6) } else { let x = rng.below(59); if x >= 40 { x + 6 } else { x } };
        dimno += 1;
        let l = match pick {
            // block headers that fail: resuming must not enter the block half way
            50 => format!("FOR {} = 1 TO 1 / Z0%\nPRINT {}\nNEXT", rng.pick(&["A%", "C!"]), i1),
            51 => format!("FOR A% = 1 TO 3 STEP {} / Z0%\nPRINT A%\nIF A% > 5 THEN END\nNEXT", i1),
            52 => format!("SELECT CASE {} / Z0%\nCASE 1\nPRINT \"one\"\nCASE ELSE\nPRINT \"else\"\nEND SELECT", i1),
            53 => format!("IF {} / Z0% = 1 THEN\nPRINT \"then\"\nELSEIF 1 / Z0% = 2 THEN\nPRINT \"elseif\"\nELSE\nPRINT \"else\"\nEND IF", i1),
            61 => format!("IF A% = 77 THEN\nPRINT \"then\"\nELSEIF A% = {} THEN\nPRINT ({})\nGOTO {}\nELSE\nPRINT \"else\"\nEND IF", i1, call, rng.pick(&["Lb9", "Lb9", "NoSuchLabel", "InProc"])),
            // array bounds are expressions too: ill-typed built-in calls, undefined functions
            62 => format!(
                "{} DX{}%({}{}({}))",
                rng.pick(&["DIM", "REDIM"]),
                dimno,
                rng.pick(&["", "1 TO "]),
                rng.pick(&["UCASE$", "LEN", "LTRIM$", "VAL", "STR$", "CHR$", "Twice", "Nope", "Nope$", "UBOUND"]),
                rng.pick(&["5", "\"a\"", "A%", "E$", "AR%", "AR%(1)", "2"])
            ),
            // an undefined function with a string name, used where a string is required
            63 => format!("PRINT {}(Nope{}$({})); LEN(Nope4$(1))", rng.pick(&["UCASE$", "LTRIM$", "LEN", "RTRIM$"]), rng.pick(&["", "2"]), i1),
            64 => format!("{} = LEFT$(Nope3$({}), {}) + Nope5$", sv, i1, i2),
            54 => "Cnt".to_string(),
            55 => "Outer 2".to_string(),
            56 => format!("WHILE {} / Z0% = 1\nPRINT \"w\"\nEND\nWEND", i1),
            58 => format!("PRINT (Nope({})); AR%(Nope2({}))", i1, i2),
            59 => format!("SELECT CASE {}\nCASE 1\nPRINT \"one\"\nCASE {} / Z0%\nPRINT \"two\"\nCASE ELSE\nPRINT \"else\"\nEND SELECT", i1, i2),
            60 => format!("OPEN \"R.DAT\" FOR RANDOM AS #4 LEN = {}\nFIELD #4, {} AS E$, {} AS F$\nGET #4, 1\nPUT #4, 2\nCLOSE #4", rng.pick(&["4", "8", "0", "1"]), rng.pick(&["2", "4", "8"]), rng.pick(&["2", "6", "1"])),
            57 => format!("DO\nPRINT \"d\"\nA% = A% + 1\nLOOP UNTIL A% / Z0% > 1 OR A% > 3"),
            46 => format!("POKE {}, {}", i1, i2),
            47 => format!("DEF SEG = {}", rng.pick(&["0", "0", "4096", "4097", "A%"])),
            48 => "DEF SEG".to_string(),
            49 => format!("{} = PEEK({}) + VARPTR({}) + VARSEG({})", iv, i1, iv, iv),
            40 => format!("PRINT ({})", call),
            41 => format!("{} = ({})", sv, call),
            42 => format!("{} = 1 + ({})", iv, call),
            43 => format!("PRINT Twice(({}))", call),
            44 => format!("PRINT AR%(({}))", call),
            45 => format!("IF ({}) = 0 THEN PRINT -({})", call, call),
            0 => format!("INPUT {}", iv),
            1 => format!("INPUT {}, {}", iv, sv),
            2 => format!("OPEN \"{}\" FOR {} AS A%", name, rng.pick(&["INPUT", "OUTPUT", "APPEND"])),
            3 => format!("LINE INPUT {}", sv),
            4 => format!("INPUT #{}, {}", h, iv),
            5 => format!("INPUT #{}, {}, {}", h, sv, iv),
            6 => format!("LINE INPUT #{}, {}", h, sv),
            7 => format!("PRINT {}; {}, {}", i1, s1, i2),
            8 => format!("PRINT #{}, {}; {}", h, s1, i1),
            9 => format!("LPRINT {}, {};", s1, i1),
            10 => format!("PRINT USING {}; {}; {}", s1, i1, s2),
            11 => format!("PRINT #{}, USING {}; {}", h, s1, i1),
            12 => format!(
                "OPEN \"{}\" FOR {} AS #{}",
                name,
                rng.pick(&["INPUT", "OUTPUT", "APPEND", "RANDOM"]),
                rng.pick(&["1", "2", "3", "1", "2", "3", "255", "254"])
            ),
            13 => format!("OPEN \"{}\" FOR RANDOM AS #{} LEN = {}", name, rng.pick(&["1", "2", "3"]), i1),
            14 => format!("CLOSE #{}", rng.pick(&["1", "2", "3"])),
            15 => rng.pick(&["CLOSE", "CLOSE", "CLOSE A%", "CLOSE 0", "CLOSE 300"]).to_string(),
            16 => format!("IF EOF({}) THEN PRINT \"eof\"", rng.pick(&["1", "2", "3", "0", "256", "A%"])),
            17 => format!("FIELD #{}, {} AS E$, {} AS F$", h, i1, i2),
            18 => format!("LSET {} = {}", sv, s1),
            19 => format!("PUT #{}, {}", h, i1),
            20 => format!("GET #{}, {}", h, i1),
            21 => format!("KILL \"{}\"", name),
            22 => format!("NAME \"{}\" AS \"{}\"", name, rng.pick(&names)),
            23 => format!("READ {}", iv),
            24 => format!("READ {}", sv),
            25 => format!("ENVIRON {}", s1),
            26 => format!("{} = ENVIRON$({})", sv, s1),
            27 => "CLS".to_string(),
            28 => format!("LOCATE {}, {}", i1, i2),
            29 => format!("COLOR {}, {}", i1, i2),
            30 => format!("VIEW PRINT {} TO {}", i1, i2),
            31 => format!("WIDTH {}, {}", i1, i2),
            32 => format!("{} = {}", iv, i1),
            33 => format!("{} = LEFT$({}, {}) + MID$({}, {}, {}) + RIGHT$({}, {})", sv, s1, i1, s2, i1, i2, s1, i2),
            34 => format!("{} = STRING$({}, {}) + UCASE$({}) + LTRIM$({})", sv, i1, s1, s2, s1),
            35 => format!("{} = VAL({}) + INSTR({}, {}) + LEN({})", iv, s1, s1, s2, s1),
            36 => format!("PRINT LBOUND(AR%); UBOUND(AR%); {}; {} / {}", iv, i1, i2),
            37 => format!("{} = CHR$({})", sv, i1),
            38 => format!("PRINT ERR; {} / {}", i1, i2),
            _ => format!("PRINT {} MOD {}; {} * {}", i1, i2, i1, i2),
        };
        lines.push(l);
    }
    lines.push("Lb9:".into());
    lines.push("END".into());
    if handler {
        lines.push("Hnd:".into());
        if rng.chance(1, 12) {
            // an error inside the handler itself: it ends the program, it is not trapped again
            lines.push(rng.pick(&["Y9 = 1 / Z0%", "OPEN \"MISSING.TXT\" FOR INPUT AS #9", "PRINT AR%(9)"]).to_string());
        }
        lines.push(rng.pick(&["RESUME NEXT", "RESUME NEXT", "PRINT \"E\"; ERR\nRESUME NEXT"]).to_string());
    }
    // a STATIC subprogram, also called from inside another subprogram
    lines.push("SUB Cnt STATIC".into());
    lines.push("CN% = CN% + 1".into());
    lines.push("PRINT \"cnt\"; CN%".into());
    lines.push("END SUB".into());
    lines.push("SUB Outer (N%)".into());
    lines.push("Cnt".into());
    lines.push("IF N% > 1 THEN Outer N% - 1".into());
    lines.push("END SUB".into());
    lines.push("SUB SArr (A$())".into());
    lines.push("PRINT A$(1); \"|\"".into());
    lines.push("END SUB".into());
    lines.push("FUNCTION Twice(X)".into());
    lines.push("InProc:".into());
    lines.push("Twice = X * 2".into());
    lines.push("END FUNCTION".into());
    if rng.chance(1, 10) {
        // module-level code after a procedure that refers to a label of the procedure:
        // the checker must reject it; if it does not, the branch leaves its procedure
        lines.push(
            rng.pick(&[
                "GOTO InProc",
                "GOSUB InProc",
                "ON ERROR GOTO InProc",
                "X9 = 1 / 0\nRESUME InProc",
                "IF A% = 0 THEN GOTO InProc",
            ])
            .to_string(),
        );
    }
    let eol = *rng.pick(&["\n", "\r\n"]);
    let text = lines.join(eol) + eol;
    let mut files = vec![];
    if rng.chance(2, 3) {
        files.push(("A.TXT".to_string(), token_soup(rng, 20)));
    }
    if rng.chance(1, 3) {
        files.push(("B.TXT".to_string(), b"12,abc\r\n-3\r\n".to_vec()));
    }
    let stdin = token_soup(rng, 20);
    // 0-3 faults at global addresses
    let mut plan = vec![];
    for _ in 0..rng.below(4) {
        let (class, seam) = *rng.pick(&[
            (OpClass::Write, SeamKind::Screen),
            (OpClass::Write, SeamKind::Lpt1),
            (OpClass::Write, SeamKind::File),
            (OpClass::Flush, SeamKind::Screen),
            (OpClass::Read, SeamKind::Stdin),
            (OpClass::Read, SeamKind::File),
            (OpClass::Seek, SeamKind::File),
            (OpClass::Open, SeamKind::Fs),
            (OpClass::Remove, SeamKind::Fs),
            (OpClass::Rename, SeamKind::Fs),
        ]);
        let kinds = global_fault_kinds(class, seam);
        let kind = *rng.pick(&kinds);
        plan.push(global_fault(class, seam, rng.below(6) as u32, kind));
    }
    RawCase {
        text,
        stdin,
        files,
        plan,
        origin: "W-IO generator".into(),
    }
}

// ----------------------------------------------------------------------
// W-REP: typed statement soup over the rest of the repertoire (arrays, records,
// fixed-length strings, CONST, SHARED, STATIC, parameters of every type, DATA/READ,
// memory built-ins). Workload mix only: these statements have no fault surface of their
// own; the oracle is "accepted by the checker => no internal failure".
// ----------------------------------------------------------------------

pub fn gen_wrep(rng: &mut Rng) -> RawCase {
    let mut l: Vec<String> = vec![];
    l.push("TYPE Pt\nX AS INTEGER\nY AS LONG\nN AS STRING * 5\nZ AS SINGLE\nEND TYPE".into());
    let has_ln = rng.chance(1, 2);
    if has_ln {
        l.push("TYPE Ln\nA AS Pt\nB AS Pt\nEND TYPE".into());
    }
    l.push("DIM SHARED GS%".into());
    l.push("DIM SHARED GA$(1 TO 2)".into());
    l.push("CONST C1 = 5\nCONST CS$ = \"k\"\nCONST CF = 2.5\nCONST DBG = 0".into());
    l.push("DIM A1%(1 TO 3), A2$(2, 2), P AS Pt, PA(1 TO 2) AS Pt, FS AS STRING * 4, D1#(-1 TO 1)".into());
    if has_ln {
        l.push("DIM L1 AS Ln\nL1.A.X = 3\nL1.B = P".into());
    }
    if rng.chance(1, 3) {
        l.push("DATA 1, 2.5, \"s\", -7, 99999".into());
    }
    let handler = rng.chance(1, 2);
    if handler {
        l.push("ON ERROR GOTO Hnd".into());
    } else if rng.chance(1, 3) {
        l.push("ON ERROR RESUME NEXT".into());
    }
    let iv = ["I%", "J&", "S!", "D#", "A1%(1)", "A1%(I%)", "A1%(4)", "P.X", "P.Y", "PA(1).X", "PA(I%).Y", "GS%", "D1#(-1)", "P.Z", "A1%(Fn1%(1))", "PA(Fn1%(1)).X", "A1%(Undef1(1))", "PA(Undef2(2)).Y", "A1%(1, 2)", "D1#(0, 0)", "A1%(LEN(T$))"];
    let sv = ["T$", "A2$(1, 2)", "A2$(I%, 0)", "P.N", "PA(2).N", "FS", "GA$(1)", "A2$(3, 3)", "A2$(1)", "A2$(Fn1%(0), 1)", "PA(Fn1%(1)).N"];
    let ie = ["0", "1", "-1", "3", "4", "32767", "-32768", "70000", "2.5", "-0.5", "100000", "C1", "CF", "I%", "J&", "S!", "D#", "A1%(2)", "P.X", "LEN(T$)", "UBOUND(A1%)", "LBOUND(D1#)", "UBOUND(A2$, 2)", "I% MOD 3", "I% AND 5", "NOT I%", "I% OR J&", "-I%", "(I% + 1) * 2", "VAL(T$)", "INSTR(T$, \"a\")", "Fn1%(I%)", "Fn2#(S!, T$)", "VARPTR(I%)", "VARSEG(A1%(1))", "PEEK(VARPTR(I%))", "ERR", "Fn1%(A1%(Fn1%(1)))", "Fn1%(PA(Fn1%(1)).X)", "Fn4%(A1%(Fn1%(1)), I%)", "A1%(Fn1%(0) + 1)", "A1%(2, 1)", "LEN(A2$(1, Fn1%(1)))", "Undef3(I%)"];
    let se = ["\"\"", "\"a\"", "\"hello world\"", "T$", "CS$", "P.N", "FS", "STR$(I%)", "CHR$(65)", "LEFT$(T$, I%)", "MID$(T$, I%, 2)", "RIGHT$(T$, 1)", "UCASE$(T$) + LCASE$(T$)", "SPACE$(I%)", "STRING$(3, \"x\")", "LTRIM$(RTRIM$(T$))", "MKD$(D#)", "Fn3$(T$)", "ENVIRON$(\"HOME\")", "STRING$(5, 205)", "CHR$(200) + CHR$(201)", "LEFT$(STRING$(4, 205), 3)", "RIGHT$(STRING$(3, 200), 1)", "MID$(STRING$(4, 205), 2, 1)", "LEFT$(CHR$(200) + T$, 1)", "UCASE$(CHR$(228))", "LTRIM$(CHR$(160) + T$)"];
    // a GOTO into a block is legal for the checker; what the block's end finds on the
    // stacks is then not what its own start pushed
    let jumps = rng.chance(1, 6);
    let mut skipped_dim = false;
    let n = 3 + rng.below(16);
    if rng.chance(1, 40) {
        // a whole array by value for an array parameter of another element type: for the
        // checker to refuse (the generator cannot convert arrays)
        l.push(rng.pick(&["Sb5 (A1%())", "Sb5 (D1#())", "Sb5 (PA())"]).to_string());
    }
    for _ in 0..n {
        let i1 = *rng.pick(&ie);
        let i2 = *rng.pick(&ie);
        let s1 = *rng.pick(&se);
        let s2 = *rng.pick(&se);
        let v = *rng.pick(&iv);
        let w = *rng.pick(&sv);
        let special = rng.below(150);
        let line = match if special == 0 {
            41
        } else if special <= 6 {
            41 + special
        } else {
            rng.below(if jumps { 41 } else { 38 })
        } {
            0..=4 => format!("{} = {}", v, i1),
            5..=8 => format!("{} = {}", w, s1),
            9 => format!("{} = {} + {} * {}", v, i1, i2, i1),
            10 => format!("{} = {} / {}", v, i1, i2),
            11 => format!("{} = {} + {}", w, s1, s2),
            12 => format!("PRINT {}; {}; {}", i1, s1, v),
            13 => format!("IF {} > {} THEN {} = {} ELSE {} = {}", i1, i2, v, i1, w, s1),
            14 => format!("IF {} = {} THEN PRINT \"eq\"", s1, s2),
            15 => format!("FOR I% = {} TO {}\n{} = {}\nNEXT", i1, i2, v, i2),
            16 => format!("FOR S! = 1 TO 2 STEP {}\nPRINT S!;\nC9% = C9% + 1\nIF C9% > 40 THEN END\nNEXT", rng.pick(&["0.5", "0.25", "-1", "I%", "I% * 1", "J& - J&", "C1 - 4", "I% * 0 + 1"])),
            17 => format!("SELECT CASE {}\nCASE 1 TO 3\nPRINT \"a\"\nCASE IS > {}\nPRINT \"b\"\nCASE ELSE\nEND SELECT", i1, i2),
            18 => {
                if rng.chance(1, 3) {
                    // the selector is a field of a record array element whose subscript may
                    // be out of range (also inside another SELECT CASE)
                    let sel = *rng.pick(&["PA(I%).X", "PA(3).X", "PA(Fn1%(I%)).X", "PA(I% + 2).Y", "PA(1).X"]);
                    let inner = format!("SELECT CASE {}\nCASE 0\nPRINT \"z\";\nCASE 1 TO 9\nPRINT \"n\";\nCASE ELSE\nPRINT \"e\";\nEND SELECT", sel);
                    if rng.chance(1, 2) {
                        format!("SELECT CASE {}\nCASE ELSE\n{}\nEND SELECT", i1, inner)
                    } else {
                        inner
                    }
                } else {
                    format!("SELECT CASE {}\nCASE \"a\", \"b\"\nPRINT 1\nCASE ELSE\nPRINT 2\nEND SELECT", s1)
                }
            }
            19 => format!("WHILE I% < 3\nI% = I% + 1\n{} = {}\nWEND", v, i1),
            20 => format!("Sb1 {}, {}, ({})", rng.pick(&["I%", "A1%(1)", "P.X", "GS%", "A1%(I%)", "PA(1).X", "A1%(Fn1%(I%))", "A1%(Fn4%(I%, GS%))", "PA(Fn1%(I%)).X", "A1%(Fn5%(1))", "A1%(Fn5%(Fn1%(1)))"]), rng.pick(&["T$", "A2$(1, 2)", "GA$(1)", "A2$(I%, 0)", "A2$(Fn5%(1), 1)"]), i1),
            21 => {
                // a record by reference, or by value (in parentheses: a record of another
                // type is then for the checker to refuse)
                let rec = if rng.chance(1, 3) {
                    let other = has_ln && rng.chance(1, 8);
                    *rng.pick(&["(P)", "(PA(1))", "PA(2)", if other { "(L1)" } else { "(P)" }, if has_ln { "L1.A" } else { "P" }, if has_ln { "(L1.B)" } else { "(P)" }])
                } else {
                    "P"
                };
                format!("Sb2 A1%(), {}, {}", rec, i1)
            }
            22 => format!("Sb1 ({}), ({}), ({})", rng.pick(&["I%", "P.X", "3", "70000", "-1"]), w, i2),
            23 => "Sb3".to_string(),
            24 => format!("READ {}", rng.pick(&["I%", "T$", "D#", "P.X", "A1%(2)", "FS"])),
            25 => format!("REDIM RD%({})\nRD%(1) = {}", i1, i2),
            26 => format!("POKE VARPTR({}), {}", rng.pick(&["I%", "A1%(1)", "P.X", "J&"]), i1),
            27 => format!("DEF SEG = VARSEG({})\nPRINT PEEK(VARPTR({}))\nDEF SEG", rng.pick(&["A1%(1)", "I%", "A1%(3)"]), rng.pick(&["A1%(1)", "I%", "A1%(2)"])),
            28 => format!("P = PA({})", rng.pick(&["1", "2", "I%", "3"])),
            29 => format!("PA({}) = P", rng.pick(&["1", "2", "I%", "0"])),
            30 => format!("LSET {} = {}", rng.pick(&["T$", "T$", "T$", "T$", "T$", "FS"]), s1),
            31 => format!("GOSUB Gs1"),
            32 => format!("PRINT USING {}; {}; {}", rng.pick(&["\"##.#\"", "\"\\ \\\"", "\"!\"", "\"#\"", "T$"]), i1, s1),
            33 => format!("{} = Fn1%({}) + Fn2#({}, {})", v, i1, i2, s1),
            34 => format!("ENVIRON {}", s1),
            35 => format!("{} = CVD(MKD$({}))", v, i1),
            36 => {
                // whole arrays where a value is expected: for the checker to refuse
                if rng.chance(1, 12) {
                    format!("PRINT {}; {}", i1, rng.pick(&["A1%", "A2$", "PA", "D1#"]))
                } else {
                    format!("PRINT {}; {}", i1, s1)
                }
            }
            37 => format!("{} = Fn4%({}, {})", v, rng.pick(&["A1%(Fn1%(1))", "I%", "PA(Fn1%(1)).X", "A1%(I%)", "A1%(Fn5%(1))", "PA(Fn5%(2)).X"]), rng.pick(&["I%", "GS%", "A1%(Fn1%(0) + 1)", "A1%(Fn5%(1))"])),
            38 => format!("GOTO {}", rng.pick(&["InFor", "InSel", "InWhile", "InIf", "InIf0", "InIf1", "InWhile0"])),
            39 => format!("IF {} > {} THEN GOTO {}", i1, i2, rng.pick(&["InFor", "InSel", "InWhile", "InIf", "InIf0", "InIf1", "InWhile0"])),
            40 => format!("GOSUB {}", rng.pick(&["InFor", "InSel", "InIf0"])),
            // assignment to something that is not a variable: for the checker to refuse
            41 => format!("{} = {}", rng.pick(&["MID$(T$, 2, 1)", "LEFT$(T$, 1)", "UBOUND(A1%)", "LEN(T$)"]), s1),
            // the store-back of the second argument fails after the SUB changed the index
            42 => {
                if rng.chance(1, 2) {
                    format!("GS% = 1\n{} = Fn6%(A1%(GS%)) + Fn1%(2)", v)
                } else {
                    format!("Sb4 I%, A1%(I%)\nSb1 {}, T$, 1\n{} = LEFT$(T$, 1)", v, w)
                }
            }
            // a record whose DIM is jumped over
            43 if !skipped_dim => {
                skipped_dim = true;
                "GOTO SkD\nDIM C9 AS Pt\nSkD:\nC9.X = 5\nPRINT C9.X; VARPTR(C9.Y)".to_string()
            }
            // a whole array where a string variable is expected
            44 => format!("{} {}", rng.pick(&["LINE INPUT", "LSET", "INPUT"]), rng.pick(&["GA$()", "GA$() = \"x\"", "A1%()"])),
            // values no variable should hold, handed to a built-in that takes the bits apart
            45 => "D# = 10\nFOR K3% = 1 TO 400\nD# = D# * 10\nNEXT\nT$ = MKD$(D#)\nT$ = MKD$(D# - D#)\nPRINT STR$(D# - D#); CVD(MKD$(-D#))".to_string(),
            // one argument too many (a variable: it would be stored back): for the checker to refuse
            46 => format!("Sb1 {}, T$, 1, {}\n{} = Fn1%(I%, J&)", v, rng.pick(&["J&", "I%", "D#", "GS%"]), v),
            _ => format!("{} = STR$({}) + {}", w, i1, s1),
        };
        l.push(line);
    }
    // the blocks come last: every jump is a forward jump (a backward jump would turn the
    // statements in between into a loop, and some of them double a string)
    if jumps {
        l.push("FOR K1% = 1 TO 2\nInFor:\nPRINT K1%;\nNEXT".into());
        l.push("SELECT CASE I%\nCASE 0\nInSel:\nPRINT \"s\";\nCASE ELSE\nEND SELECT".into());
        l.push("WHILE K2% < 2\nInWhile:\nK2% = K2% + 1\nWEND".into());
        l.push("IF I% = 12345 THEN\nInIf:\nPRINT \"i\";\nEND IF".into());
        // a block whose condition is a constant: its labels are still branch targets
        l.push(format!(
            "IF {} THEN\nInIf0:\nPRINT \"c\";\nELSEIF {} THEN\nInIf1:\nPRINT \"d\";\nEND IF",
            rng.pick(&["0", "DBG", "(0)", "C1 - 5", "DBG * 1"]),
            rng.pick(&["0", "DBG", "1", "I%"])
        ));
        l.push(format!("WHILE {}\nInWhile0:\nPRINT \"w\";\nK4% = K4% + 1\nIF K4% > 3 THEN END\nWEND", rng.pick(&["0", "DBG"])));
    }
    l.push("Rl9:\nPRINT \"end\"\nEND".into());
    l.push("Gs1:\nI% = I% + 1\nRETURN".into());
    if handler {
        l.push(format!(
            "Hnd:\n{}",
            rng.pick(&[
                "RESUME NEXT",
                "PRINT \"E\"; ERR\nRESUME NEXT",
                // repair and retry: the failing statement is executed again
                "HC% = HC% + 1\nI% = I% + 1\nIF HC% < 4 THEN RESUME\nRESUME NEXT",
                // a few times back to the end of the main module, whatever was under way
                "HC% = HC% + 1\nIF HC% < 3 THEN RESUME NEXT\nRESUME Rl9",
            ])
        ));
    }
    l.push("SUB Sb1 (A%, B$, C#)\nA% = A% + 1\nB$ = B$ + \"!\"\nGS% = GS% + 1\nEND SUB".into());
    l.push("SUB Sb2 (Arr%(), Q AS Pt, N%)\nArr%(1) = N%\nQ.X = N%\nQ.N = \"abcdefgh\"\nIF N% > 2 THEN EXIT SUB\nArr%(N% + 2) = 1\nEND SUB".into());
    l.push("SUB Sb3 STATIC\nK% = K% + 1\nPRINT K%;\nEND SUB".into());
    l.push("FUNCTION Fn1% (X%)\nIF X% > 100 THEN EXIT FUNCTION\nFn1% = X% * 2\nEND FUNCTION".into());
    l.push("FUNCTION Fn2# (A!, B$)\nFn2# = A! + LEN(B$)\nEND FUNCTION".into());
    l.push("FUNCTION Fn3$ (B$)\nFn3$ = B$ + B$\nEND FUNCTION".into());
    l.push("FUNCTION Fn4% (A%, B%)\nA% = A% + 1\nFn4% = A% + B%\nEND FUNCTION".into());
    l.push("SUB Sb4 (P%, Q%)\nP% = 10\nEND SUB".into());
    l.push("SUB Sb5 (X!())\nEND SUB".into());
    // moves the SHARED index: the store-back of A1%(GS%) fails after the function returned
    l.push("FUNCTION Fn6% (N%)\nGS% = 10\nFn6% = 7\nEND FUNCTION".into());
    // a function with a statement that fails every time it is called (a handler goes on
    // behind it): as the index of an element passed by reference it is evaluated again
    // when the element is stored back, i.e. it fails while its caller's result waits
    l.push(format!(
        "FUNCTION Fn5% (X%)\n{}\nFn5% = X%\nEND FUNCTION",
        rng.pick(&["OPEN \"NOSUCH.DAT\" FOR INPUT AS #9", "Y9% = 1 / Z9%", "KILL \"NOSUCH.DAT\"", "Y9% = A9%(77)"])
    ));
    let text = l.join("\n") + "\n";
    RawCase {
        text,
        stdin: vec![],
        files: vec![],
        plan: vec![],
        origin: if jumps {
            "W-REP generator (jumps into blocks)".into()
        } else {
            "W-REP generator".into()
        },
    }
}

/// Line-based minimisation of a raw case while the same finding (property, key) persists.
pub fn minimise_raw(case: &RawCase, f: &Found) -> RawCase {
    let same = |c: &RawCase| -> bool {
        run_raw(c, None)
            .found
            .iter()
            .any(|g| g.property == f.property && g.key == f.key)
    };
    let mut best = case.clone();
    // faults
    let mut i = 0;
    while i < best.plan.len() {
        let mut c = best.clone();
        c.plan.remove(i);
        if same(&c) {
            best = c;
        } else {
            i += 1;
        }
    }
    // lines
    let sep = if best.text.contains("\r\n") { "\r\n" } else { "\n" };
    let mut lines: Vec<String> = best.text.split(sep).map(|s| s.to_string()).collect();
    let mut k = 0;
    let mut attempts = 0;
    while k < lines.len() && attempts < 300 {
        attempts += 1;
        let mut l2 = lines.clone();
        l2.remove(k);
        let mut c = best.clone();
        c.text = l2.join(sep);
        if same(&c) {
            lines = l2;
            best = c;
        } else {
            k += 1;
        }
    }
    // stdin and files
    if !best.stdin.is_empty() {
        let mut c = best.clone();
        c.stdin.clear();
        if same(&c) {
            best = c;
        }
    }
    let mut i = 0;
    while i < best.files.len() {
        let mut c = best.clone();
        c.files.remove(i);
        if same(&c) {
            best = c;
        } else {
            i += 1;
        }
    }
    best
}

pub fn digest_text(s: &str) -> u64 {
    let mut h = Fnv::default();
    h.str(s);
    h.0
}
