//! Runs the real pipeline (parser -> linter -> instruction generator -> VM)
//! over the simulated world.

use std::cell::RefCell;
use std::panic::{AssertUnwindSafe, catch_unwind};
use std::rc::Rc;

use rusty_basic::instruction_generator::{
    Instruction, InstructionGeneratorResult, generate_instructions, unwrap_linter_context,
};
use rusty_basic::interpreter::InterpreterTrait;
use rusty_basic::interpreter::verif::{
    Interpreter, ReadInputSource, VmControl, VmDispatch, VmEvent, WritePrinter,
};
use rusty_basic::interpreter::verif_fs;
use rusty_linter::core::lint;
use rusty_parser::{Program, parse_main_str};

use crate::monitor::{Monitor, MonitorReport};
use crate::world::{EventKind, Seam, Shared, SimEnv, SimFs, SimRead, SimScreen, SimWrite};

thread_local! {
    static LAST_PANIC: RefCell<Option<(String, String)>> = const { RefCell::new(None) };
}

/// Installs a process-wide panic hook that records (message, location) in a
/// thread-local instead of printing. Call once at start-up.
pub fn install_panic_hook() {
    std::panic::set_hook(Box::new(|info| {
        let msg = if let Some(s) = info.payload().downcast_ref::<&str>() {
            s.to_string()
        } else if let Some(s) = info.payload().downcast_ref::<String>() {
            s.clone()
        } else {
            "<non-string panic>".to_string()
        };
        let loc = info
            .location()
            .map(|l| format!("{}:{}", l.file(), l.line()))
            .unwrap_or_default();
        // (the simulated std::env::set_var panics on purpose, like the real one)
        if (loc.starts_with("src/") || loc.contains("/verif/sim/src"))
            && !msg.contains("simulated std::env::set_var")
        {
            eprintln!("harness panic at {}: {}", loc, msg);
        }
        LAST_PANIC.with(|p| *p.borrow_mut() = Some((msg, loc)));
    }));
}

pub fn take_panic_pub() -> (String, String) {
    take_panic()
}

fn take_panic() -> (String, String) {
    LAST_PANIC
        .with(|p| p.borrow_mut().take())
        .unwrap_or_else(|| ("<unknown>".into(), "".into()))
}

#[derive(Clone, Debug, PartialEq, Eq)]
pub enum Outcome {
    /// normal termination
    Ok,
    /// BASIC run-time error: code and positions (row, col), innermost first
    Error { code: i32, name: String, positions: Vec<(u32, u32)> },
    /// the static checker rejected the program
    LintError(String),
    ParseError(String),
    /// internal failure (where: "generate" | "interpret" | "lint" | "parse")
    Panic { stage: &'static str, message: String, location: String },
    /// instruction budget exhausted
    Budget,
    /// killed at a crash point of the fault plan (nothing ran afterwards)
    Killed,
}

impl Outcome {
    pub fn is_internal_failure(&self) -> bool {
        matches!(self, Outcome::Panic { .. })
    }
    pub fn short(&self) -> String {
        match self {
            Outcome::Ok => "ok".into(),
            Outcome::Error {
                code, positions, ..
            } => format!("error {} at {:?}", code, positions),
            Outcome::LintError(e) => format!("lint error {}", e),
            Outcome::ParseError(e) => format!("parse error {}", e),
            Outcome::Panic {
                stage,
                message,
                location,
            } => format!("PANIC in {} at {}: {}", stage, location, message),
            Outcome::Budget => "budget exhausted".into(),
            Outcome::Killed => "killed".into(),
        }
    }
}

pub fn parse(text: &str) -> Result<Program, Outcome> {
    let t = text.to_string();
    match catch_unwind(AssertUnwindSafe(|| parse_main_str(t))) {
        Ok(Ok(p)) => Ok(p),
        Ok(Err(e)) => Err(Outcome::ParseError(format!("{:?}", e))),
        Err(_) => {
            let (message, location) = take_panic();
            Err(Outcome::Panic {
                stage: "parse",
                message,
                location,
            })
        }
    }
}

/// Parses through the file loader (`parse_main_file`), as the real binary does. The text
/// goes through a scratch file private to the calling thread.
pub fn parse_via_file(text: &str) -> Result<Program, Outcome> {
    use std::hash::{Hash, Hasher};
    let mut h = std::collections::hash_map::DefaultHasher::new();
    std::thread::current().id().hash(&mut h);
    let dir = format!(
        "{}/sim/target/scratch",
        std::env::var("VERIF_DIR").unwrap_or_else(|_| "/verif".into())
    );
    let _ = std::fs::create_dir_all(&dir);
    let path = format!("{}/p{}-{:016x}.bas", dir, std::process::id(), h.finish());
    if std::fs::write(&path, text.as_bytes()).is_err() {
        return parse(text);
    }
    let f = match std::fs::File::open(&path) {
        Ok(f) => f,
        Err(_) => return parse(text),
    };
    let r = match catch_unwind(AssertUnwindSafe(|| rusty_parser::parse_main_file(f))) {
        Ok(Ok(p)) => Ok(p),
        Ok(Err(e)) => Err(Outcome::ParseError(format!("{:?}", e))),
        Err(_) => {
            let (message, location) = take_panic();
            Err(Outcome::Panic {
                stage: "parse",
                message,
                location,
            })
        }
    };
    let _ = std::fs::remove_file(&path);
    r
}

pub struct RunResult {
    pub outcome: Outcome,
    pub monitor: MonitorReport,
    pub instructions: usize,
}

/// Compact, comparable description of an instruction (for structural checks
/// and replay logs).
pub fn instr_name(i: &Instruction) -> String {
    let s = format!("{:?}", i);
    s
}

/// Lints, generates and runs `program` in `world`.
pub fn run_program(program: &Program, world: &Shared, budget: u64) -> RunResult {
    let strict_end = !world.borrow().spans.is_empty();
    let mut monitor_report = MonitorReport::default();
    // ---- lint ----
    let p = program.clone();
    let linted = match catch_unwind(AssertUnwindSafe(|| lint(p))) {
        Ok(Ok(x)) => x,
        Ok(Err(e)) => {
            return RunResult {
                outcome: Outcome::LintError(format!("{:?}", e)),
                monitor: monitor_report,
                instructions: 0,
            };
        }
        Err(_) => {
            let (message, location) = take_panic();
            return RunResult {
                outcome: Outcome::Panic {
                    stage: "lint",
                    message,
                    location,
                },
                monitor: monitor_report,
                instructions: 0,
            };
        }
    };
    let (linted_program, linter_context) = linted;
    let (names, user_defined_types) = unwrap_linter_context(linter_context);
    // ---- generate ----
    let gen_result: InstructionGeneratorResult = match catch_unwind(AssertUnwindSafe(|| {
        generate_instructions(linted_program, names)
    })) {
        Ok(r) => r,
        Err(_) => {
            let (message, location) = take_panic();
            return RunResult {
                outcome: Outcome::Panic {
                    stage: "generate",
                    message,
                    location,
                },
                monitor: monitor_report,
                instructions: 0,
            };
        }
    };
    let n_instr = gen_result.instructions.len();
    // ---- structural invariants (C15, run-start) ----
    crate::structure::check(&gen_result, &mut monitor_report);

    // ---- interpret ----
    let stdin = ReadInputSource::new(SimRead {
        world: world.clone(),
    });
    let stdout = WritePrinter::new(SimWrite {
        world: world.clone(),
        seam: Seam::Screen,
    });
    let lpt1 = WritePrinter::new(SimWrite {
        world: world.clone(),
        seam: Seam::Lpt1,
    });
    let screen = SimScreen {
        world: world.clone(),
    };
    let env = SimEnv {
        world: world.clone(),
    };
    let mut interpreter = Interpreter::new(env, stdin, stdout, lpt1, screen, user_defined_types);

    let monitor = Rc::new(RefCell::new(Monitor::new(&gen_result, strict_end)));
    let stopped = Rc::new(RefCell::new(false));
    {
        let world = world.clone();
        let monitor = monitor.clone();
        let stopped = stopped.clone();
        interpreter.verif_set_observer(Some(Box::new(move |ev: &VmEvent| -> VmControl {
            match ev {
                VmEvent::Step {
                    pc,
                    instruction,
                    pos,
                    is_statement_start,
                    handler: _,
                    depths,
                } => {
                    let mut w = world.borrow_mut();
                    w.instr += 1;
                    w.cur_pc = *pc;
                    if w.instr > budget {
                        *stopped.borrow_mut() = true;
                        return VmControl::Stop;
                    }
                    if w.kill_at == Some(w.instr) {
                        // crash point: the store survives as it is now; whatever the
                        // process would still do while shutting down is discarded
                        w.killed = true;
                        w.fs_at_kill = Some(w.fs.clone());
                        w.push_event(EventKind::Killed);
                        *stopped.borrow_mut() = true;
                        return VmControl::Stop;
                    }
                    // attribution
                    let (row, col) = (pos.row(), pos.col());
                    // every instruction must carry a position inside the code of some
                    // line ((1, 1) is the placeholder of internal arguments)
                    if row != u32::MAX
                        && !(row == 1 && col == 1)
                        && !w.code_lines.is_empty()
                        && w.pos_off_table.is_none()
                    {
                        let ok = match w.code_lines.get(&row) {
                            Some((c0, c1)) => *c0 <= col && col <= *c1,
                            None => false,
                        };
                        if !ok {
                            w.pos_off_table = Some((*pc, row, col));
                        }
                    }
                    if row != u32::MAX {
                        let hit = w.stmt_at(row, col).copied();
                        match hit {
                            Some(span) => {
                                // implicit variable allocations at the start of the
                                // program carry the position of the first use
                                let is_alloc = matches!(
                                    instruction,
                                    Instruction::AllocateBuiltIn(_)
                                        | Instruction::AllocateFixedLengthString(_)
                                        | Instruction::AllocateUserDefined(_)
                                        | Instruction::IsVariableDefined(_)
                                );
                                let started = *is_statement_start && !is_alloc;
                                let occ = {
                                    let e = w.occ.entry(span.stmt).or_insert(0);
                                    if started {
                                        *e += 1;
                                    }
                                    *e
                                };
                                w.cur_stmt = Some((span.stmt, occ));
                                if started {
                                    w.push_event(EventKind::Stmt {
                                        stmt: span.stmt,
                                        occ,
                                    });
                                }
                            }
                            None => {
                                w.cur_stmt = w.header_at(row, col).map(|id| (id, 0));
                            }
                        }
                    }
                    drop(w);
                    monitor
                        .borrow_mut()
                        .on_step(*pc, instruction, *is_statement_start, depths);
                    VmControl::Continue
                }
                VmEvent::Error {
                    pc,
                    error,
                    dispatch,
                    depths,
                } => {
                    let code = catch_unwind(AssertUnwindSafe(|| error.err().get_code()))
                        .unwrap_or(-1);
                    let pos = positions_of(error);
                    let (d, target) = match dispatch {
                        VmDispatch::Handler(a) => (1u8, *a),
                        VmDispatch::Next(a) => (2u8, *a),
                        VmDispatch::Unhandled => (0u8, 0),
                    };
                    let (row, col) = pos.first().copied().unwrap_or((0, 0));
                    world.borrow_mut().push_event(EventKind::Error {
                        code,
                        row,
                        col,
                        dispatch: d,
                        target,
                    });
                    monitor.borrow_mut().on_error(*pc, dispatch, depths);
                    VmControl::Continue
                }
            }
        })));
    }

    // `real_fs`: leave the seam empty, so that file operations go to std::fs (fidelity runs)
    let real_fs = world.borrow().real_fs;
    let prev = if real_fs {
        verif_fs::install(None)
    } else {
        verif_fs::install(Some(Box::new(SimFs {
            world: world.clone(),
        })))
    };
    let result = catch_unwind(AssertUnwindSafe(|| interpreter.interpret(gen_result)));
    // dropping the interpreter closes the files (handles die with the run)
    let drop_result = catch_unwind(AssertUnwindSafe(move || drop(interpreter)));
    verif_fs::install(prev);
    let killed = {
        let mut w = world.borrow_mut();
        if let Some(fs) = w.fs_at_kill.take() {
            if fs.snapshot() != w.fs.snapshot() {
                w.writes_after_kill_discarded = true;
            }
            w.fs = fs;
        }
        w.killed
    };

    let outcome = match result {
        Ok(Ok(())) => {
            if killed {
                Outcome::Killed
            } else if *stopped.borrow() {
                Outcome::Budget
            } else {
                Outcome::Ok
            }
        }
        Ok(Err(e)) => {
            let code = catch_unwind(AssertUnwindSafe(|| e.err().get_code()));
            match code {
                Ok(code) => Outcome::Error {
                    code,
                    name: format!("{:?}", e.err()),
                    positions: positions_of(&e),
                },
                Err(_) => {
                    let (message, location) = take_panic();
                    Outcome::Panic {
                        stage: "interpret",
                        message,
                        location,
                    }
                }
            }
        }
        Err(_) => {
            let (message, location) = take_panic();
            Outcome::Panic {
                stage: "interpret",
                message,
                location,
            }
        }
    };
    let outcome = match (outcome, drop_result) {
        (o @ Outcome::Panic { .. }, _) => o,
        (_, Err(_)) => {
            let (message, location) = take_panic();
            Outcome::Panic {
                stage: "interpret",
                message: format!("panic while dropping the interpreter: {}", message),
                location,
            }
        }
        (o, Ok(())) => o,
    };
    let mut m = monitor.borrow_mut();
    m.finish(matches!(outcome, Outcome::Ok));
    monitor_report.merge(m.take_report());
    RunResult {
        outcome,
        monitor: monitor_report,
        instructions: n_instr,
    }
}

/// ErrorEnvelope keeps its positions private; recover them from Debug output.
pub fn positions_of<T: std::fmt::Debug>(e: &rusty_basic::ErrorEnvelope<T>) -> Vec<(u32, u32)> {
    let s = format!("{:?}", e);
    let mut out = vec![];
    let mut rest = s.as_str();
    while let Some(i) = rest.find("Position { row: ") {
        rest = &rest[i + "Position { row: ".len()..];
        let row_end = rest.find(',').unwrap_or(0);
        let row: u32 = rest[..row_end].trim().parse().unwrap_or(0);
        if let Some(j) = rest.find("col: ") {
            rest = &rest[j + 5..];
            let col_end = rest.find(' ').unwrap_or(0);
            let col: u32 = rest[..col_end].trim().parse().unwrap_or(0);
            out.push((row, col));
        }
    }
    out
}
