//! Minimisation of a failing case: canonical layout, fewer faults, fewer
//! programs, fewer statements, while the same violation (property, class, key)
//! persists.

use crate::case::*;
use crate::dsl::*;
use crate::emit::Layout;

fn same(a: &Found, b: &Found) -> bool {
    a.property == b.property && a.class == b.class && a.key == b.key
}

fn still_fails(case: &Case, f: &Found) -> Option<Found> {
    let prep = prepare(&case.history, &case.layouts).ok()?;
    let r = run_case(&prep, &case.history, &case.plan, false, true);
    if r.rejected_by_linter {
        return None;
    }
    r.found.into_iter().find(|g| same(g, f))
}

/// Number of statements reachable by `nth`.
fn count(list: &[Stmt]) -> usize {
    let mut n = 0;
    for s in list {
        n += 1;
        for b in children(&s.kind) {
            n += count(b);
        }
    }
    n
}

/// Removes the `k`-th statement (pre-order) of the list; returns true when done.
fn remove_nth(list: &mut Vec<Stmt>, k: &mut usize, unwrap: bool) -> bool {
    let mut i = 0;
    while i < list.len() {
        if *k == 0 {
            if unwrap {
                let s = list.remove(i);
                let mut inner: Vec<Stmt> = vec![];
                match s.kind {
                    StmtKind::IfLine { then_s, .. } => inner.push(*then_s),
                    other => {
                        let mut o = other;
                        if let Some(first) = children_mut(&mut o).into_iter().next() {
                            inner = std::mem::take(first);
                        }
                    }
                }
                for (j, st) in inner.into_iter().enumerate() {
                    list.insert(i + j, st);
                }
            } else {
                list.remove(i);
            }
            return true;
        }
        *k -= 1;
        let s = &mut list[i];
        for b in children_mut(&mut s.kind) {
            if remove_nth(b, k, unwrap) {
                return true;
            }
        }
        i += 1;
    }
    false
}

pub fn minimise(case: &Case, f: &Found) -> (Case, Found) {
    let mut best = case.clone();
    let mut best_found = f.clone();
    let mut attempts = 0;
    let max_attempts = 400;
    let mut try_case = |cand: Case, best: &mut Case, best_found: &mut Found, attempts: &mut usize| -> bool {
        if *attempts >= max_attempts {
            return false;
        }
        *attempts += 1;
        match still_fails(&cand, best_found) {
            Some(g) => {
                *best = cand;
                *best_found = g;
                true
            }
            None => false,
        }
    };

    // 1. canonical layout
    {
        let mut c = best.clone();
        c.layouts = c.history.programs.iter().map(|_| Layout::canonical()).collect();
        try_case(c, &mut best, &mut best_found, &mut attempts);
    }
    // 2. fewer faults
    let mut i = 0;
    while i < best.plan.len() {
        let mut c = best.clone();
        c.plan.remove(i);
        if !try_case(c, &mut best, &mut best_found, &mut attempts) {
            i += 1;
        }
    }
    // 3. fewer programs (only trailing ones: earlier programs set up the store)
    while best.history.programs.len() > 1 {
        let last = best.history.programs.len() - 1;
        if best_found.prog == last {
            break;
        }
        let mut c = best.clone();
        c.history.programs.pop();
        if c.layouts.len() > c.history.programs.len() {
            c.layouts.pop();
        }
        c.plan.retain(|p| p.prog < last);
        if !try_case(c, &mut best, &mut best_found, &mut attempts) {
            break;
        }
    }
    // 4. fewer statements / unwrapped blocks, to a fixed point
    loop {
        let mut progress = false;
        for pi in 0..best.history.programs.len() {
            // main
            for unwrap in [false, true] {
                let mut k = 0;
                loop {
                    let n = count(&best.history.programs[pi].main);
                    if k >= n {
                        break;
                    }
                    let mut c = best.clone();
                    let mut kk = k;
                    if !remove_nth(&mut c.history.programs[pi].main, &mut kk, unwrap) {
                        break;
                    }
                    if try_case(c, &mut best, &mut best_found, &mut attempts) {
                        progress = true;
                    } else {
                        k += 1;
                    }
                }
            }
            // procedure bodies
            let np = best.history.programs[pi].procs.len();
            for qi in 0..np {
                for unwrap in [false, true] {
                    let mut k = 0;
                    loop {
                        if qi >= best.history.programs[pi].procs.len() {
                            break;
                        }
                        let n = count(&best.history.programs[pi].procs[qi].body);
                        if k >= n {
                            break;
                        }
                        let mut c = best.clone();
                        let mut kk = k;
                        if !remove_nth(&mut c.history.programs[pi].procs[qi].body, &mut kk, unwrap) {
                            break;
                        }
                        if try_case(c, &mut best, &mut best_found, &mut attempts) {
                            progress = true;
                        } else {
                            k += 1;
                        }
                    }
                }
            }
            // whole procedures
            let mut qi = 0;
            while qi < best.history.programs[pi].procs.len() {
                let mut c = best.clone();
                c.history.programs[pi].procs.remove(qi);
                if try_case(c, &mut best, &mut best_found, &mut attempts) {
                    progress = true;
                } else {
                    qi += 1;
                }
            }
            // stdin
            if !best.history.programs[pi].stdin.is_empty() {
                let mut c = best.clone();
                c.history.programs[pi].stdin.clear();
                if try_case(c, &mut best, &mut best_found, &mut attempts) {
                    progress = true;
                }
            }
        }
        if !progress || attempts >= max_attempts {
            break;
        }
    }
    (best, best_found)
}
