//! C15 run-start structural invariants of the generated instruction list.

use std::collections::HashMap;

use rusty_basic::instruction_generator::{AddressOrLabel, Instruction, InstructionGeneratorResult};

use crate::monitor::{MonViolation, MonitorReport};

fn is_proc_label(name: &str) -> bool {
    name.starts_with(":sub:") || name.starts_with(":fun:")
}

pub fn check(r: &InstructionGeneratorResult, report: &mut MonitorReport) {
    let ins = &r.instructions;
    let n = ins.len();
    let mut push = |kind: &'static str, pc: usize, detail: String| {
        if report.violations.len() < 8 {
            report.violations.push(MonViolation {
                kind,
                pc,
                which: None,
                detail,
            });
        }
    };

    // partition into main + procedures
    let mut starts: Vec<usize> = vec![0];
    let mut labels: HashMap<String, Vec<usize>> = HashMap::new();
    for (pc, i) in ins.iter().enumerate() {
        if let Instruction::Label(l) = &i.element {
            let name = l.to_string().to_uppercase();
            labels.entry(name.clone()).or_default().push(pc);
            if is_proc_label(&name.to_lowercase()) && pc != 0 {
                starts.push(pc);
            }
        }
    }
    let part_of = |pc: usize| -> usize {
        match starts.binary_search(&pc) {
            Ok(i) => i,
            Err(i) => i - 1,
        }
    };
    report.labels += labels.len();

    // S2: every label defined once
    let mut dups: Vec<(&String, &Vec<usize>)> = labels.iter().filter(|(_, v)| v.len() > 1).collect();
    dups.sort();
    if let Some((name, pcs)) = dups.first() {
        push(
            "S2",
            pcs[1],
            format!(
                "label {} defined {} times (at {:?}); {} labels are duplicated in all",
                name,
                pcs.len(),
                pcs,
                dups.len()
            ),
        );
    }

    // S1 / S3 / S6: branch targets
    let mut branches = 0usize;
    for (pc, i) in ins.iter().enumerate() {
        let (target, kind): (Option<&AddressOrLabel>, &str) = match &i.element {
            Instruction::Jump(a) => (Some(a), "Jump"),
            Instruction::JumpIfFalse(a) => (Some(a), "JumpIfFalse"),
            Instruction::GoSub(a) => (Some(a), "GoSub"),
            Instruction::OnErrorGoTo(a) => (Some(a), "OnErrorGoTo"),
            Instruction::ResumeLabel(a) => (Some(a), "ResumeLabel"),
            Instruction::Return(Some(a)) => (Some(a), "Return"),
            _ => (None, ""),
        };
        if let Some(a) = target {
            branches += 1;
            match a {
                AddressOrLabel::Unresolved(l) => {
                    push("S1", pc, format!("{} at {} has unresolved label {}", kind, pc, l));
                }
                AddressOrLabel::Resolved(t) => {
                    if *t >= n {
                        push(
                            "S1",
                            pc,
                            format!("{} at {} targets {} outside the list of {}", kind, pc, t, n),
                        );
                        continue;
                    }
                    let to_proc_entry = starts[1..].contains(t);
                    let is_call = kind == "Jump"
                        && to_proc_entry
                        && pc >= 1
                        && matches!(ins[pc - 1].element, Instruction::PushRet(r) if r == pc + 1);
                    if is_call {
                        continue;
                    }
                    if to_proc_entry && kind == "Jump" {
                        push(
                            "S6",
                            pc,
                            format!(
                                "Jump at {} enters the procedure at {} without the PushRet({}) call protocol",
                                pc,
                                t,
                                pc + 1
                            ),
                        );
                        continue;
                    }
                    let from = part_of(pc);
                    let to = part_of(*t);
                    let handler_ok =
                        (kind == "OnErrorGoTo" || kind == "ResumeLabel") && to == 0;
                    if from != to && !handler_ok {
                        push(
                            "S3",
                            pc,
                            format!(
                                "{} at {} (procedure #{}) targets {} in procedure #{}",
                                kind, pc, from, t, to
                            ),
                        );
                    }
                }
            }
        }
        if let Instruction::PushRet(rpc) = &i.element {
            if *rpc != pc + 2 || !matches!(ins.get(pc + 1).map(|x| &x.element), Some(Instruction::Jump(_))) {
                push(
                    "S6",
                    pc,
                    format!("PushRet({}) at {} is not followed by the call jump / does not return to {}", rpc, pc, pc + 2),
                );
            }
        }
    }
    report.branches += branches;

    // S4: main ends with Halt, procedures with PopRet
    for (k, s) in starts.iter().enumerate() {
        let end = if k + 1 < starts.len() { starts[k + 1] } else { n };
        if end == 0 || end <= *s {
            push("S4", *s, format!("empty code region #{}", k));
            continue;
        }
        let last = &ins[end - 1].element;
        if k == 0 {
            if !matches!(last, Instruction::Halt) {
                push(
                    "S4",
                    end - 1,
                    format!("main module ends with {:?} instead of Halt", last),
                );
            }
        } else if !matches!(last, Instruction::PopRet) {
            push(
                "S4",
                end - 1,
                format!("procedure #{} ends with {:?} instead of PopRet", k, last),
            );
        }
    }

    // S5: statement addresses ascending and inside the list
    let sa = &r.statement_addresses;
    for w in sa.windows(2) {
        if w[0] > w[1] {
            push(
                "S5",
                w[1],
                format!("statement addresses not ascending: {} before {}", w[0], w[1]),
            );
            break;
        }
    }
    if let Some(bad) = sa.iter().find(|a| **a >= n) {
        push(
            "S5",
            *bad,
            format!("statement address {} outside the list of {}", bad, n),
        );
    }

    // S7: abstract interpretation of the stack depths over every static path. The state
    // is the depth, relative to the entry of the region, of the value stack, the register
    // stack, the var-path stack, the argument states, the by-ref queue and the stashed
    // function results. Seeds: the entry of the main module and of every procedure (all
    // zero) and every user label (a user label is followed by TrimStacks(f, s), which
    // *sets* the register and value depths: a label may be reached from a deeper block).
    // Required: no path drives a depth below zero; two paths that meet agree on every
    // depth (at a user label: on every depth that TrimStacks does not reset); at every
    // statement start, Halt and PopRet no argument state, var path, by-ref value or
    // function result is pending; falling into a user label happens with the depths the
    // generator recorded for it.
    const NS: usize = 6;
    const NAMES: [&str; NS] = ["value", "register", "var_path", "arguments", "by_ref", "function_result"];
    let is_user_label = |pc: usize| -> Option<(i32, i32)> {
        if let (Some(a), Some(b)) = (ins.get(pc), ins.get(pc + 1)) {
            if let (Instruction::Label(_), Instruction::TrimStacks(f, sd)) = (&a.element, &b.element) {
                return Some((*f as i32, *sd as i32));
            }
        }
        None
    };
    let stmt_starts: std::collections::HashSet<usize> = r.statement_addresses.iter().copied().collect();
    let mut state: Vec<Option<[i32; NS]>> = vec![None; n];
    let mut work: Vec<(usize, [i32; NS], bool)> = vec![];
    for s0 in &starts {
        work.push((*s0, [0; NS], false));
    }
    for pc in 0..n {
        if let Some((f, sd)) = is_user_label(pc) {
            let mut st = [0; NS];
            st[0] = sd;
            st[1] = f;
            // seeded *behind* the TrimStacks
            if pc + 2 < n {
                work.push((pc + 2, st, false));
            }
        }
    }
    let mut s7_reported = 0;
    while let Some((pc, st, by_fallthrough)) = work.pop() {
        if pc >= n || s7_reported >= 3 {
            continue;
        }
        let user_label = is_user_label(pc);
        if let (Some((f, sd)), true) = (user_label, by_fallthrough) {
            if st[0] != sd || st[1] != f {
                s7_reported += 1;
                push(
                    "S7",
                    pc,
                    format!(
                        "label at {} is entered from the statement before it with value depth {} and register depth {}, the generator recorded {} and {}",
                        pc, st[0], st[1], sd, f
                    ),
                );
            }
        }
        match &state[pc] {
            Some(prev) => {
                let differs = (0..NS).find(|i| {
                    prev[*i] != st[*i] && !(user_label.is_some() && (*i == 0 || *i == 1))
                });
                if let Some(i) = differs {
                    s7_reported += 1;
                    push(
                        "S7",
                        pc,
                        format!(
                            "{} depth at pc {} depends on the path: {} on one, {} on another",
                            NAMES[i], pc, prev[i], st[i]
                        ),
                    );
                }
                continue;
            }
            None => state[pc] = Some(st),
        }
        if stmt_starts.contains(&pc) || matches!(ins[pc].element, Instruction::Halt | Instruction::PopRet) {
            for i in 2..NS {
                if st[i] != 0 {
                    s7_reported += 1;
                    push(
                        "S7",
                        pc,
                        format!(
                            "{} depth is {} at the statement boundary at pc {}",
                            NAMES[i], st[i], pc
                        ),
                    );
                    break;
                }
            }
        }
        let mut nx = st;
        let mut succ: Vec<(usize, bool)> = vec![(pc + 1, true)];
        match &ins[pc].element {
            Instruction::PushAToValueStack => nx[0] += 1,
            Instruction::PopValueStackIntoA => nx[0] -= 1,
            Instruction::PushRegisters => nx[1] += 1,
            Instruction::PopRegisters => nx[1] -= 1,
            Instruction::VarPathName(_) => nx[2] += 1,
            Instruction::VarPathIndex | Instruction::VarPathProperty(_) | Instruction::CopyVarPathToA => {
                if nx[2] < 1 {
                    nx[2] = -1;
                }
            }
            Instruction::CopyAToVarPath | Instruction::PopVarPath | Instruction::PushUnnamedByRef => nx[2] -= 1,
            Instruction::BeginCollectArguments => nx[3] += 1,
            Instruction::PopStack | Instruction::AllocateArrayIntoA(_) => nx[3] -= 1,
            Instruction::PushStack | Instruction::PushStaticStack(_) => {
                if nx[3] < 1 {
                    nx[3] = -1;
                }
            }
            Instruction::EnqueueToReturnStack(_) => nx[4] += 1,
            Instruction::DequeueFromReturnStack => nx[4] -= 1,
            Instruction::StashFunctionReturnValue(_) => nx[5] += 1,
            Instruction::UnStashFunctionReturnValue => nx[5] -= 1,
            Instruction::TrimStacks(f, sd) => {
                nx[0] = *sd as i32;
                nx[1] = *f as i32;
            }
            Instruction::PushRet(ret) => {
                // the call: control comes back at `ret` with the depths it left with
                succ = vec![(*ret, true)];
            }
            Instruction::Jump(a) => {
                succ = match a {
                    AddressOrLabel::Resolved(t) => vec![(*t, false)],
                    _ => vec![],
                };
            }
            Instruction::JumpIfFalse(a) => {
                if let AddressOrLabel::Resolved(t) = a {
                    succ.push((*t, false));
                }
            }
            Instruction::Halt
            | Instruction::PopRet
            | Instruction::Return(_)
            | Instruction::Resume
            | Instruction::ResumeNext
            | Instruction::ResumeLabel(_)
            | Instruction::Throw(_) => succ = vec![],
            _ => {}
        }
        if let Some(i) = (0..NS).find(|i| nx[*i] < 0) {
            s7_reported += 1;
            push(
                "S7",
                pc,
                format!(
                    "{:?} at pc {} takes from the {} stack, which is empty on a path that reaches it",
                    ins[pc].element, pc, NAMES[i]
                ),
            );
            continue;
        }
        for (t, ft) in succ {
            if t < n {
                // a procedure is left through PopRet only
                if ft && starts[1..].contains(&t) {
                    continue;
                }
                work.push((t, nx, ft));
            }
        }
    }
}
