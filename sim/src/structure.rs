//! C15 run-start structural invariants of the generated instruction list.

use std::collections::HashMap;

use rusty_basic::instruction_generator::{AddressOrLabel, Instruction, InstructionGeneratorResult};

use crate::monitor::{MonViolation, MonitorReport};

fn is_proc_label(name: &str) -> bool {
    name.starts_with(":sub:") || name.starts_with(":fun:")
}

pub fn check(r: &InstructionGeneratorResult, report: &mut MonitorReport) {
    let ins = &r.instructions;
    let n = ins.len();
    let mut push = |kind: &'static str, pc: usize, detail: String| {
        if report.violations.len() < 8 {
            report.violations.push(MonViolation {
                kind,
                pc,
                which: None,
                detail,
            });
        }
    };

    // partition into main + procedures
    let mut starts: Vec<usize> = vec![0];
    let mut labels: HashMap<String, Vec<usize>> = HashMap::new();
    for (pc, i) in ins.iter().enumerate() {
        if let Instruction::Label(l) = &i.element {
            let name = l.to_string().to_uppercase();
            labels.entry(name.clone()).or_default().push(pc);
            if is_proc_label(&name.to_lowercase()) && pc != 0 {
                starts.push(pc);
            }
        }
    }
    let part_of = |pc: usize| -> usize {
        match starts.binary_search(&pc) {
            Ok(i) => i,
            Err(i) => i - 1,
        }
    };
    report.labels += labels.len();

    // S2: every label defined once
    let mut dups: Vec<(&String, &Vec<usize>)> = labels.iter().filter(|(_, v)| v.len() > 1).collect();
    dups.sort();
    if let Some((name, pcs)) = dups.first() {
        push(
            "S2",
            pcs[1],
            format!(
                "label {} defined {} times (at {:?}); {} labels are duplicated in all",
                name,
                pcs.len(),
                pcs,
                dups.len()
            ),
        );
    }

    // S1 / S3 / S6: branch targets
    let mut branches = 0usize;
    for (pc, i) in ins.iter().enumerate() {
        let (target, kind): (Option<&AddressOrLabel>, &str) = match &i.element {
            Instruction::Jump(a) => (Some(a), "Jump"),
            Instruction::JumpIfFalse(a) => (Some(a), "JumpIfFalse"),
            Instruction::GoSub(a) => (Some(a), "GoSub"),
            Instruction::OnErrorGoTo(a) => (Some(a), "OnErrorGoTo"),
            Instruction::ResumeLabel(a) => (Some(a), "ResumeLabel"),
            Instruction::Return(Some(a)) => (Some(a), "Return"),
            _ => (None, ""),
        };
        if let Some(a) = target {
            branches += 1;
            match a {
                AddressOrLabel::Unresolved(l) => {
                    push("S1", pc, format!("{} at {} has unresolved label {}", kind, pc, l));
                }
                AddressOrLabel::Resolved(t) => {
                    if *t >= n {
                        push(
                            "S1",
                            pc,
                            format!("{} at {} targets {} outside the list of {}", kind, pc, t, n),
                        );
                        continue;
                    }
                    let to_proc_entry = starts[1..].contains(t);
                    let is_call = kind == "Jump"
                        && to_proc_entry
                        && pc >= 1
                        && matches!(ins[pc - 1].element, Instruction::PushRet(r) if r == pc + 1);
                    if is_call {
                        continue;
                    }
                    if to_proc_entry && kind == "Jump" {
                        push(
                            "S6",
                            pc,
                            format!(
                                "Jump at {} enters the procedure at {} without the PushRet({}) call protocol",
                                pc,
                                t,
                                pc + 1
                            ),
                        );
                        continue;
                    }
                    let from = part_of(pc);
                    let to = part_of(*t);
                    let handler_ok =
                        (kind == "OnErrorGoTo" || kind == "ResumeLabel") && to == 0;
                    if from != to && !handler_ok {
                        push(
                            "S3",
                            pc,
                            format!(
                                "{} at {} (procedure #{}) targets {} in procedure #{}",
                                kind, pc, from, t, to
                            ),
                        );
                    }
                }
            }
        }
        if let Instruction::PushRet(rpc) = &i.element {
            if *rpc != pc + 2 || !matches!(ins.get(pc + 1).map(|x| &x.element), Some(Instruction::Jump(_))) {
                push(
                    "S6",
                    pc,
                    format!("PushRet({}) at {} is not followed by the call jump / does not return to {}", rpc, pc, pc + 2),
                );
            }
        }
    }
    report.branches += branches;

    // S4: main ends with Halt, procedures with PopRet
    for (k, s) in starts.iter().enumerate() {
        let end = if k + 1 < starts.len() { starts[k + 1] } else { n };
        if end == 0 || end <= *s {
            push("S4", *s, format!("empty code region #{}", k));
            continue;
        }
        let last = &ins[end - 1].element;
        if k == 0 {
            if !matches!(last, Instruction::Halt) {
                push(
                    "S4",
                    end - 1,
                    format!("main module ends with {:?} instead of Halt", last),
                );
            }
        } else if !matches!(last, Instruction::PopRet) {
            push(
                "S4",
                end - 1,
                format!("procedure #{} ends with {:?} instead of PopRet", k, last),
            );
        }
    }

    // S5: statement addresses ascending and inside the list
    let sa = &r.statement_addresses;
    for w in sa.windows(2) {
        if w[0] > w[1] {
            push(
                "S5",
                w[1],
                format!("statement addresses not ascending: {} before {}", w[0], w[1]),
            );
            break;
        }
    }
    if let Some(bad) = sa.iter().find(|a| **a >= n) {
        push(
            "S5",
            *bad,
            format!("statement address {} outside the list of {}", bad, n),
        );
    }
}
