//! Watchdog for runs that never come back. The VM is observed instruction by
//! instruction and every run has an instruction budget, but a loop *inside* one
//! instruction (a built-in that spins, a reader that never advances) is out of the
//! observer's reach: the worker thread would hang and the check with it. Every worker
//! publishes what it is running; a watchdog thread reports a run that has been going for
//! longer than the limit as an internal failure (C08: the program neither terminates nor
//! ends in a BASIC error) and lets the check finish without that worker.

use std::cell::RefCell;
use std::sync::{Arc, Mutex};
use std::time::{Duration, Instant};

use crate::case::{Case, PlanItem};
use crate::dsl::History;
use crate::emit::Layout;
use crate::raw::RawCase;

#[derive(Clone)]
pub enum Running {
    Dsl {
        index: usize,
        history: Arc<History>,
        layouts: Arc<Vec<Layout>>,
        plan: Vec<PlanItem>,
    },
    Raw(Arc<RawCase>),
}

#[derive(Clone)]
pub struct Slot {
    pub since: Instant,
    pub what: Running,
    pub reported: bool,
}

type Shared = Arc<Mutex<Option<Slot>>>;

static REGISTRY: Mutex<Vec<Shared>> = Mutex::new(Vec::new());
static HUNG: Mutex<Vec<Running>> = Mutex::new(Vec::new());

thread_local! {
    static MINE: RefCell<Option<Shared>> = const { RefCell::new(None) };
    static SCENARIO: RefCell<Option<(usize, Arc<History>, Arc<Vec<Layout>>)>> = const { RefCell::new(None) };
}

fn mine() -> Shared {
    MINE.with(|m| {
        let mut m = m.borrow_mut();
        if m.is_none() {
            let s: Shared = Arc::new(Mutex::new(None));
            REGISTRY.lock().unwrap().push(s.clone());
            *m = Some(s);
        }
        m.as_ref().unwrap().clone()
    })
}

/// The scenario (history under a set of layouts) the calling worker is about to run.
pub fn scenario(index: usize, history: &History, layouts: &[Layout]) {
    SCENARIO.with(|s| {
        *s.borrow_mut() = Some((index, Arc::new(history.clone()), Arc::new(layouts.to_vec())));
    });
}

/// A run of the current scenario under `plan` starts now.
pub fn begin_run(plan: &[PlanItem]) {
    let sc = SCENARIO.with(|s| s.borrow().clone());
    if let Some((index, history, layouts)) = sc {
        *mine().lock().unwrap() = Some(Slot {
            since: Instant::now(),
            what: Running::Dsl {
                index,
                history,
                layouts,
                plan: plan.to_vec(),
            },
            reported: false,
        });
    }
}

pub fn begin_raw(case: &RawCase) {
    *mine().lock().unwrap() = Some(Slot {
        since: Instant::now(),
        what: Running::Raw(Arc::new(case.clone())),
        reported: false,
    });
}

pub fn end_run() {
    *mine().lock().unwrap() = None;
}

pub fn limit() -> Duration {
    let s = std::env::var("VERIF_HANG_S")
        .ok()
        .and_then(|v| v.parse::<u64>().ok())
        .unwrap_or(30);
    Duration::from_secs(s)
}

/// Scans the workers once; returns how many runs are over the limit (newly found ones
/// are remembered for `take_hung`).
pub fn scan() -> usize {
    let lim = limit();
    let mut n = 0;
    for s in REGISTRY.lock().unwrap().iter() {
        let mut g = s.lock().unwrap();
        if let Some(slot) = g.as_mut() {
            if slot.since.elapsed() > lim {
                n += 1;
                if !slot.reported {
                    slot.reported = true;
                    HUNG.lock().unwrap().push(slot.what.clone());
                }
            }
        }
    }
    n
}

/// Is the calling... no: is the worker that owns `slot` hung? Used by the joiner.
pub fn hung_count() -> usize {
    scan()
}

pub fn take_hung() -> Vec<Running> {
    std::mem::take(&mut *HUNG.lock().unwrap())
}

pub fn case_of(r: &Running) -> (usize, Case, Option<RawCase>) {
    match r {
        Running::Dsl {
            index,
            history,
            layouts,
            plan,
        } => (
            *index,
            Case {
                history: (**history).clone(),
                layouts: (**layouts).clone(),
                plan: plan.clone(),
            },
            None,
        ),
        Running::Raw(c) => (
            0,
            Case {
                history: History::default(),
                layouts: vec![Layout::canonical()],
                plan: vec![],
            },
            Some((**c).clone()),
        ),
    }
}

/// Ends the run when dropped.
pub struct Guard;
impl Drop for Guard {
    fn drop(&mut self) {
        end_run();
    }
}

/// Waits for the workers, except those the watchdog found hanging (their threads are left
/// behind; they end with the process). Returns false if a worker died.
pub fn join_all(handles: Vec<std::thread::JoinHandle<()>>) -> bool {
    let mut ok = true;
    let mut pending: Vec<std::thread::JoinHandle<()>> = handles;
    loop {
        let mut still = vec![];
        for h in pending {
            if h.is_finished() {
                if h.join().is_err() {
                    ok = false;
                }
            } else {
                still.push(h);
            }
        }
        pending = still;
        if pending.is_empty() {
            return ok;
        }
        // every worker that has not finished is over the limit: nothing more to wait for
        if scan() >= pending.len() {
            return ok;
        }
        std::thread::sleep(Duration::from_millis(50));
    }
}
