//! Hand-built witness cases for the defects of the pinned tree that were
//! repaired by `fix:` commits. Each is a replay file under /verif/witness; a
//! check replays the witnesses of its property on every run and reports a
//! violation if one fails again.

use crate::case::{Case, FaultSer, PlanItem};
use crate::dsl::*;
use crate::emit::Layout;

pub struct Witness {
    pub name: &'static str,
    pub property: &'static str,
    pub class: &'static str,
    pub key: &'static str,
    pub what: &'static str,
    pub case: Case,
}

struct B(StmtId);
impl B {
    fn s(&mut self, kind: StmtKind) -> Stmt {
        self.0 += 1;
        Stmt { id: self.0, kind }
    }
    fn print(&mut self, dev: Dev, items: Vec<PItem>) -> Stmt {
        self.s(StmtKind::Print {
            dev,
            items,
            using: None,
        })
    }
    fn trace(&mut self, t: &str) -> Stmt {
        self.print(Dev::Screen, vec![e(lit(t))])
    }
    fn handler(&mut self, list: &mut Vec<Stmt>) {
        list.push(self.s(StmtKind::End));
        list.push(self.s(StmtKind::Label("H1".into())));
        list.push(self.s(StmtKind::Resume(ResumeKind::Next)));
    }
}

fn lit(t: &str) -> Expr {
    Expr::Str(t.to_string())
}
fn e(x: Expr) -> PItem {
    PItem::E(x)
}
fn var(n: &str) -> Expr {
    Expr::Var(n.to_string())
}
fn int(n: i32) -> Expr {
    Expr::Int(n)
}
fn bx(x: Expr) -> Box<Expr> {
    Box::new(x)
}

fn case_of(main: Vec<Stmt>, procs: Vec<Proc>, stdin: &[u8], plan: Vec<PlanItem>) -> Case {
    Case {
        history: History {
            programs: vec![Scenario {
                main,
                procs,
                stdin: stdin.to_vec(),
            }],
            files: vec![],
            dirs: vec![],
        },
        layouts: vec![Layout::canonical()],
        plan,
    }
}

fn fault(stmt: StmtId, class: &str, seam: &str, kind: &str, arg: u32) -> PlanItem {
    PlanItem {
        prog: 0,
        fault: FaultSer {
            stmt: Some(stmt),
            occ: 1,
            ordinal: 0,
            class: class.into(),
            seam: seam.into(),
            kind: kind.into(),
            arg,
            permanent: false,
        },
    }
}

pub fn all() -> Vec<Witness> {
    let mut out = vec![];

    // ---- get_code panics for unmapped errors ----
    {
        let mut b = B(0);
        let main = vec![b.trace("a"), b.s(StmtKind::End)];
        out.push(Witness {
            name: "fixed-get-code-device-error",
            property: "C08",
            class: "Internal",
            key: "",
            what: "PRINT to a device that reports a hard error, no handler: get_code panicked with 'not implemented for DeviceIOError'",
            case: case_of(main, vec![], b"", vec![fault(1, "write", "screen", "err_storage_full", 0)]),
        });
    }
    // ---- failed built-in leaves its frame (module level) ----
    {
        let mut b = B(0);
        let mut main = vec![
            b.s(StmtKind::OnErrorGoto("H1".into())),
            b.s(StmtKind::Assign {
                var: "G1%".into(),
                expr: int(5),
            }),
            b.s(StmtKind::Open {
                name: "MISSING.TXT".into(),
                mode: Mode::Input,
                handle: 1,
                len: None,
            }),
            b.print(Dev::Screen, vec![e(lit("T")), PItem::Semi, e(var("G1%"))]),
        ];
        b.handler(&mut main);
        out.push(Witness {
            name: "fixed-builtin-failure-frame-module-level",
            property: "C05",
            class: "VarValue",
            key: "",
            what: "after a handled OPEN failure (RESUME NEXT) module-level variables read as zero",
            case: case_of(main, vec![], b"", vec![]),
        });
    }
    // ---- failed built-in inside a SUB drains the stacktrace ----
    {
        let mut b = B(0);
        let body = vec![
            b.s(StmtKind::Open {
                name: "MISSING.TXT".into(),
                mode: Mode::Input,
                handle: 1,
                len: None,
            }),
            b.trace("in sub"),
        ];
        let mut main = vec![
            b.s(StmtKind::OnErrorGoto("H1".into())),
            b.s(StmtKind::CallSub {
                name: "S1".into(),
                args: vec![int(1)],
            }),
            b.trace("after"),
        ];
        b.handler(&mut main);
        out.push(Witness {
            name: "fixed-builtin-failure-frame-in-sub",
            property: "C08",
            class: "Internal",
            key: "",
            what: "handled OPEN failure inside a SUB: PopStack panicked with 'removal index (is 0) should be < len (is 0)'",
            case: case_of(
                main,
                vec![Proc {
                    name: "S1".into(),
                    is_function: false,
                    params: vec!["P1%".into()],
                    body,
                    is_static: false,
                }],
                b"",
                vec![],
            ),
        });
    }
    // ---- PRINT # on a closed handle ----
    {
        let mut b = B(0);
        let mut main = vec![
            b.s(StmtKind::OnErrorGoto("H1".into())),
            b.print(Dev::File(1), vec![e(lit("x"))]),
            b.trace("T"),
        ];
        b.handler(&mut main);
        out.push(Witness {
            name: "fixed-print-to-closed-handle",
            property: "C08",
            class: "Internal",
            key: "",
            what: "PRINT #1 on a handle that is not open: choose_printer panicked with 'File not found'",
            case: case_of(main, vec![], b"", vec![]),
        });
    }
    // ---- invalid UTF-8 on the console ----
    {
        let mut b = B(0);
        let main = vec![
            b.s(StmtKind::InputCon {
                vars: vec!["S1$".into(), "S2$".into()],
            }),
            b.s(StmtKind::End),
        ];
        out.push(Witness {
            name: "fixed-input-invalid-utf8",
            property: "C08",
            class: "Internal",
            key: "",
            what: "INPUT with the console bytes FF FE ',' 'x' LF: from_utf8(..).unwrap() panicked in read_input.rs",
            case: case_of(main, vec![], &[0xff, 0xfe, b',', b'x', b'\n'], vec![]),
        });
    }
    // ---- short write loses bytes ----
    {
        let mut b = B(0);
        let main = vec![b.trace("Hello world"), b.trace("next"), b.s(StmtKind::End)];
        out.push(Witness {
            name: "fixed-short-write-loses-bytes",
            property: "C16",
            class: "Layout",
            key: "",
            what: "a short write (device accepts half of the buffer) silently lost the rest of the PRINT output",
            case: case_of(main, vec![], b"", vec![fault(1, "write", "screen", "short_write", 50)]),
        });
    }
    // ---- abandoned PRINT suppresses the next newline ----
    {
        let mut b = B(0);
        let mut main = vec![
            b.s(StmtKind::OnErrorGoto("H1".into())),
            b.s(StmtKind::Fail(FailKind::PrintThenDivZero)),
            b.print(Dev::Screen, vec![]),
            b.trace("b"),
        ];
        b.handler(&mut main);
        out.push(Witness {
            name: "fixed-abandoned-print-skips-newline",
            property: "C16",
            class: "Layout",
            key: "",
            what: "PRINT \"x\"; 1 / 0 (handled, RESUME NEXT) followed by a bare PRINT: no line end was written",
            case: case_of(main, vec![], b"", vec![]),
        });
    }
    // ---- console LINE INPUT splits at commas ----
    {
        let mut b = B(0);
        let main = vec![
            b.s(StmtKind::LineInputCon { var: "S1$".into() }),
            b.print(
                Dev::Screen,
                vec![
                    e(lit("[")),
                    PItem::Semi,
                    e(Expr::SVar("S1$".into())),
                    PItem::Semi,
                    e(lit("]")),
                ],
            ),
            b.s(StmtKind::End),
        ];
        out.push(Witness {
            name: "fixed-console-line-input-splits-at-comma",
            property: "C18",
            class: "FileData",
            key: "",
            what: "console LINE INPUT with the line ' a, b ' stored 'a' (the file form stores the whole line)",
            case: case_of(main, vec![], b" a, b \nxyz\n", vec![]),
        });
    }
    // ---- RESUME NEXT after the last statement of an IF block falls into ELSE ----
    {
        let mut b = B(0);
        let if_id = {
            b.0 += 1;
            b.0
        };
        let then_b = vec![b.trace("T1"), b.s(StmtKind::Fail(FailKind::DivZero))];
        let else_b = vec![b.trace("T2")];
        let mut main = vec![
            b.s(StmtKind::OnErrorGoto("H1".into())),
            Stmt {
                id: if_id,
                kind: StmtKind::If {
                    cond: Expr::Cmp(CmpOp::Eq, bx(int(1)), bx(int(1))),
                    then_b,
                    elseifs: vec![],
                    else_b: Some(else_b),
                },
            },
            b.trace("T3"),
        ];
        b.handler(&mut main);
        out.push(Witness {
            name: "fixed-resume-next-after-last-statement-of-if-block",
            property: "C05",
            class: "ControlFlow",
            key: "",
            what: "error in the last statement of an IF block + RESUME NEXT continued in the ELSE block",
            case: case_of(main, vec![], b"", vec![]),
        });
    }
    // ---- same for CASE ----
    {
        let mut b = B(0);
        let sel_id = {
            b.0 += 1;
            b.0
        };
        let c1 = vec![b.trace("T1"), b.s(StmtKind::Fail(FailKind::DivZero))];
        let c2 = vec![b.trace("T2")];
        let mut main = vec![
            b.s(StmtKind::OnErrorGoto("H1".into())),
            Stmt {
                id: sel_id,
                kind: StmtKind::Select {
                    expr: int(1),
                    cases: vec![(vec![CaseSpec::Simple(int(1))], c1)],
                    else_b: Some(c2),
                },
            },
            b.trace("T3"),
        ];
        b.handler(&mut main);
        out.push(Witness {
            name: "fixed-resume-next-after-last-statement-of-case-block",
            property: "C05",
            class: "ControlFlow",
            key: "",
            what: "error in the last statement of a CASE block + RESUME NEXT continued in CASE ELSE",
            case: case_of(main, vec![], b"", vec![]),
        });
    }
    // ---- SELECT CASE leaks a value per matched CASE ----
    {
        let mut b = B(0);
        let for_id = {
            b.0 += 1;
            b.0
        };
        let sel_id = {
            b.0 += 1;
            b.0
        };
        let c1 = vec![b.trace("T")];
        let main = vec![
            Stmt {
                id: for_id,
                kind: StmtKind::For {
                    var: "W1%".into(),
                    from: int(1),
                    to: int(3),
                    step: None,
                    body: vec![Stmt {
                        id: sel_id,
                        kind: StmtKind::Select {
                            expr: int(1),
                            cases: vec![(vec![CaseSpec::Simple(int(1))], c1)],
                            else_b: None,
                        },
                    }],
                },
            },
            b.s(StmtKind::End),
        ];
        out.push(Witness {
            name: "fixed-select-case-value-stack-leak",
            property: "C15",
            class: "Stack",
            key: "value_stack",
            what: "every SELECT CASE that took a CASE branch left its value on the value stack (growth with the iteration count)",
            case: case_of(main, vec![], b"", vec![]),
        });
    }
    // ---- FOR ... STEP duplicates its body ----
    {
        let mut b = B(0);
        let for_id = {
            b.0 += 1;
            b.0
        };
        let if_id = {
            b.0 += 1;
            b.0
        };
        let then_b = vec![b.trace("two")];
        let else_b = vec![b.print(Dev::Screen, vec![e(lit("o")), PItem::Semi, e(var("W1%"))])];
        let main = vec![
            Stmt {
                id: for_id,
                kind: StmtKind::For {
                    var: "W1%".into(),
                    from: int(3),
                    to: int(1),
                    step: Some(int(-1)),
                    body: vec![Stmt {
                        id: if_id,
                        kind: StmtKind::If {
                            cond: Expr::Cmp(CmpOp::Eq, bx(var("W1%")), bx(int(2))),
                            then_b,
                            elseifs: vec![],
                            else_b: Some(else_b),
                        },
                    }],
                },
            },
            b.s(StmtKind::End),
        ];
        out.push(Witness {
            name: "fixed-for-step-duplicated-body",
            property: "C05",
            class: "ControlFlow",
            key: "",
            what: "FOR I = 3 TO 1 STEP -1 with an IF block in the body ran the wrong branch and left the loop (body emitted twice, duplicate labels)",
            case: case_of(main.clone(), vec![], b"", vec![]),
        });
        out.push(Witness {
            name: "fixed-for-step-duplicate-labels",
            property: "C15",
            class: "Stack",
            key: "S2",
            what: "any block nested in a FOR with STEP defined its generated labels twice",
            case: case_of(main, vec![], b"", vec![]),
        });
    }
    // ---- nested PRINT clobbers the device of the outer PRINT ----
    {
        let mut b = B(0);
        let body = vec![
            b.print(Dev::Lpt1, vec![e(lit("in")), PItem::Semi, e(var("P1%"))]),
            b.s(StmtKind::Assign {
                var: "FP1%".into(),
                expr: Expr::Add(bx(var("P1%")), bx(int(6))),
            }),
        ];
        let main = vec![
            b.s(StmtKind::Open {
                name: "P1.TXT".into(),
                mode: Mode::Output,
                handle: 1,
                len: None,
            }),
            b.print(
                Dev::File(1),
                vec![
                    e(lit("x")),
                    PItem::Semi,
                    e(Expr::Call("FP1%".into(), vec![int(1)])),
                    PItem::Semi,
                    e(lit("y")),
                ],
            ),
            b.s(StmtKind::Close(vec![])),
            b.s(StmtKind::End),
        ];
        out.push(Witness {
            name: "fixed-nested-print-clobbers-device",
            property: "C16",
            class: "Layout",
            key: "",
            what: "PRINT #1, \"x\"; F(1); \"y\" where F prints to LPT1: the rest of the outer PRINT went to LPT1",
            case: case_of(
                main,
                vec![Proc {
                    name: "FP1%".into(),
                    is_function: true,
                    params: vec!["P1%".into()],
                    body,
                    is_static: false,
                }],
                b"",
                vec![],
            ),
        });
    }
    // ---- GET with a short read ----
    {
        let mut b = B(0);
        let main = vec![
            b.s(StmtKind::Open {
                name: "R.DAT".into(),
                mode: Mode::Random,
                handle: 3,
                len: Some(8),
            }),
            b.s(StmtKind::Field {
                handle: 3,
                fields: vec![(4, "FA$".into()), (4, "FB$".into())],
            }),
            b.s(StmtKind::Lset {
                var: "FA$".into(),
                expr: lit("abcd"),
            }),
            b.s(StmtKind::Lset {
                var: "FB$".into(),
                expr: lit("mnop"),
            }),
            b.s(StmtKind::Put { handle: 3, rec: 1 }),
            b.s(StmtKind::Get { handle: 3, rec: 1 }),
            b.print(
                Dev::Screen,
                vec![
                    e(lit("R[")),
                    PItem::Semi,
                    e(Expr::SVar("FA$".into())),
                    PItem::Semi,
                    e(lit("][")),
                    PItem::Semi,
                    e(Expr::SVar("FB$".into())),
                    PItem::Semi,
                    e(lit("]")),
                ],
            ),
            b.s(StmtKind::End),
        ];
        out.push(Witness {
            name: "fixed-get-short-read",
            property: "C18",
            class: "FileData",
            key: "",
            what: "GET whose read returned the record in two pieces replaced the tail of the record by NUL bytes",
            case: case_of(main, vec![], b"", vec![fault(6, "read", "file", "short_read", 0)]),
        });
    }
    // ---- operand left on the value stack by a handled error ----
    {
        let mut b = B(0);
        let f2 = vec![b.s(StmtKind::Fail(FailKind::DivZeroMid))];
        let f1 = vec![b.s(StmtKind::Assign {
            var: "P1%".into(),
            expr: Expr::Add(bx(Expr::Call("F2%".into(), vec![int(-1)])), bx(var("L2%"))),
        })];
        let mut main = vec![
            b.s(StmtKind::OnErrorGoto("H1".into())),
            b.s(StmtKind::Assign {
                var: "G4%".into(),
                expr: Expr::Add(bx(int(5)), bx(Expr::Call("F1%".into(), vec![int(-2)]))),
            }),
            b.print(Dev::Screen, vec![e(lit("T")), PItem::Semi, e(var("G4%"))]),
        ];
        b.handler(&mut main);
        let procs = vec![
            Proc {
                name: "F2%".into(),
                is_function: true,
                params: vec!["P1%".into()],
                body: f2,
                is_static: false,
            },
            Proc {
                name: "F1%".into(),
                is_function: true,
                params: vec!["P1%".into()],
                body: f1,
                is_static: false,
            },
        ];
        out.push(Witness {
            name: "fixed-handled-error-leaves-operand-on-value-stack",
            property: "C05",
            class: "VarValue",
            key: "",
            what: "G = 5 + F1(..) where a handled error inside a nested function occurred in '7 + (1 / Z)': the caller added 7 instead of 5",
            case: case_of(main.clone(), procs.clone(), b"", vec![]),
        });
        out.push(Witness {
            name: "fixed-handled-error-value-stack-depth",
            property: "C15",
            class: "Stack",
            key: "value_stack",
            what: "a handled error in the middle of an expression left the saved operand on the value stack",
            case: case_of(main, procs, b"", vec![]),
        });
    }
    // ---- GOTO out of a FOR body ----
    {
        let mut b = B(0);
        let for2 = {
            b.0 += 1;
            b.0
        };
        let f2 = vec![
            Stmt {
                id: for2,
                kind: StmtKind::For {
                    var: "W1%".into(),
                    from: int(6),
                    to: int(2),
                    step: Some(int(-2)),
                    body: vec![b.s(StmtKind::Goto("LB1".into()))],
                },
            },
            b.s(StmtKind::Label("LB1".into())),
        ];
        let for1 = {
            b.0 += 1;
            b.0
        };
        let f1 = vec![Stmt {
            id: for1,
            kind: StmtKind::For {
                var: "W20%".into(),
                from: int(3),
                to: int(1),
                step: Some(int(-1)),
                body: vec![
                    b.s(StmtKind::Assign {
                        var: "P1%".into(),
                        expr: Expr::Add(
                            bx(Expr::Call("F2%".into(), vec![int(-2)])),
                            bx(var("P1%")),
                        ),
                    }),
                    b.print(Dev::Screen, vec![e(lit("T")), PItem::Semi, e(var("W20%"))]),
                ],
            },
        }];
        let main = vec![
            b.s(StmtKind::Assign {
                var: "G1%".into(),
                expr: Expr::Call("F1%".into(), vec![int(1)]),
            }),
            b.trace("end"),
            b.s(StmtKind::End),
        ];
        let procs = vec![
            Proc {
                name: "F2%".into(),
                is_function: true,
                params: vec!["P1%".into()],
                body: f2,
                is_static: false,
            },
            Proc {
                name: "F1%".into(),
                is_function: true,
                params: vec!["P1%".into()],
                body: f1,
                is_static: false,
            },
        ];
        out.push(Witness {
            name: "fixed-goto-out-of-for-corrupts-enclosing-for",
            property: "C05",
            class: "ControlFlow",
            key: "",
            what: "GOTO out of a FOR body (here inside a called function) left a register frame: the caller's FOR ... STEP lost its limit and step",
            case: case_of(main.clone(), procs.clone(), b"", vec![]),
        });
        out.push(Witness {
            name: "fixed-goto-out-of-for-register-frame",
            property: "C15",
            class: "Stack",
            key: "register_stack",
            what: "GOTO out of a FOR body left a register frame behind",
            case: case_of(main, procs, b"", vec![]),
        });
    }
    // ---- ON ERROR RESUME NEXT leaves argument states behind ----
    {
        let mut b = B(0);
        let f2 = vec![
            b.s(StmtKind::Fail(FailKind::DivZeroBuiltInArgs)),
            b.s(StmtKind::Assign {
                var: "F2%".into(),
                expr: int(7),
            }),
        ];
        let main = vec![
            b.s(StmtKind::OnErrorResumeNext),
            b.s(StmtKind::Assign {
                var: "G2%".into(),
                expr: Expr::Call("F2%".into(), vec![int(1)]),
            }),
            b.print(Dev::Screen, vec![e(lit("T")), PItem::Semi, e(var("G2%"))]),
            b.s(StmtKind::End),
        ];
        let procs = vec![Proc {
            name: "F2%".into(),
            is_function: true,
            params: vec!["P1%".into()],
            body: f2,
            is_static: false,
        }];
        out.push(Witness {
            name: "fixed-resume-next-mode-leaves-argument-states",
            property: "C08",
            class: "Internal",
            key: "",
            what: "ON ERROR RESUME NEXT: an error while the arguments of a call were evaluated inside a FUNCTION left the argument states on the context stack; the return panicked with 'Expected normal state'",
            case: case_of(main, procs, b"", vec![]),
        });
    }
    // ---- STATIC subprogram first called from inside another subprogram ----
    {
        let mut b = B(0);
        let cnt = vec![b.trace("cnt")];
        let outer = vec![
            b.s(StmtKind::CallSub {
                name: "S1".into(),
                args: vec![int(1)],
            }),
            b.trace("outer"),
        ];
        let main = vec![
            b.s(StmtKind::CallSub {
                name: "S2".into(),
                args: vec![int(1)],
            }),
            b.s(StmtKind::CallSub {
                name: "S2".into(),
                args: vec![int(2)],
            }),
            b.s(StmtKind::CallSub {
                name: "S1".into(),
                args: vec![int(3)],
            }),
            b.trace("end"),
            b.s(StmtKind::End),
        ];
        let procs = vec![
            Proc {
                name: "S1".into(),
                is_function: false,
                params: vec!["P1%".into()],
                body: cnt,
                is_static: true,
            },
            Proc {
                name: "S2".into(),
                is_function: false,
                params: vec!["P1%".into()],
                body: outer,
                is_static: false,
            },
        ];
        out.push(Witness {
            name: "fixed-static-sub-called-from-subprogram",
            property: "C08",
            class: "Internal",
            key: "",
            what: "a STATIC SUB first called from inside another SUB and later from the main module: 'index out of bounds' in Context (the static memory block had moved)",
            case: case_of(main, procs, b"", vec![]),
        });
    }
    // ---- RESUME label out of a subprogram ----
    {
        let mut b = B(0);
        let s1 = vec![b.s(StmtKind::Fail(FailKind::DivZero)), b.trace("in sub")];
        let guard_id = {
            b.0 += 1;
            b.0
        };
        let main = vec![
            b.s(StmtKind::OnErrorGoto("H1".into())),
            b.s(StmtKind::CallSub {
                name: "S1".into(),
                args: vec![int(1)],
            }),
            b.trace("not here"),
            b.s(StmtKind::Label("RL1".into())),
            Stmt {
                id: guard_id,
                kind: StmtKind::IfLine {
                    cond: Expr::Cmp(CmpOp::Lt, bx(var("G4%")), bx(int(2))),
                    then_s: Box::new(b.s(StmtKind::Fail(FailKind::Subscript))),
                    else_s: None,
                },
            },
            b.print(Dev::Screen, vec![e(lit("T")), PItem::Semi, e(var("G4%"))]),
            b.s(StmtKind::End),
            b.s(StmtKind::Label("H1".into())),
            b.s(StmtKind::Assign {
                var: "G4%".into(),
                expr: Expr::Add(bx(var("G4%")), bx(int(1))),
            }),
            b.s(StmtKind::Resume(ResumeKind::Label("RL1".into()))),
        ];
        let procs = vec![Proc {
            name: "S1".into(),
            is_function: false,
            params: vec!["P1%".into()],
            body: s1,
            is_static: false,
        }];
        out.push(Witness {
            name: "fixed-resume-label-out-of-subprogram",
            property: "C08",
            class: "Internal",
            key: "",
            what: "RESUME label after an error raised inside a SUB left the SUB's context current: the main module read its array as a plain variable ('Expected array, found VInteger(0)' panic)",
            case: case_of(main, procs, b"", vec![]),
        });
    }
    // ---- FOR step given as a binary expression ----
    {
        let mut b = B(0);
        let for_id = {
            b.0 += 1;
            b.0
        };
        let body = vec![b.print(Dev::Screen, vec![e(lit("T")), PItem::Semi, e(var("W1%"))])];
        let main = vec![
            Stmt {
                id: for_id,
                kind: StmtKind::For {
                    var: "W1%".into(),
                    from: int(0),
                    to: int(3),
                    step: Some(Expr::Add(
                        bx(Expr::Mul(bx(var("G1%")), bx(int(0)))),
                        bx(int(2)),
                    )),
                    body,
                },
            },
            b.trace("end"),
            b.s(StmtKind::End),
        ];
        out.push(Witness {
            name: "fixed-for-step-binary-expression",
            property: "C05",
            class: "ControlFlow",
            key: "",
            what: "FOR ... STEP a + b: the zero check loaded 0 into register B before the step was evaluated, a binary step expression overwrote B with its right operand, and a step equal to that operand (G1% * 0 + 2) raised error 258 'zero step'",
            case: case_of(main, vec![], b"", vec![]),
        });
    }
    // ---- PRINT column counts characters ----
    {
        let mut b = B(0);
        let main = vec![
            b.print(
                Dev::Screen,
                vec![e(lit("\u{c8}")), PItem::Comma, e(lit("b"))],
            ),
            b.s(StmtKind::End),
        ];
        out.push(Witness {
            name: "fixed-print-column-counts-characters",
            property: "C16",
            class: "Layout",
            key: "",
            what: "PRINT CHR$(200), \"b\": the device column advanced by the two bytes of the character instead of one column, the comma padded 12 blanks instead of 13",
            case: case_of(main, vec![], b"", vec![]),
        });
    }
    // ---- USING string field cut in bytes ----
    {
        let mut b = B(0);
        let main = vec![
            b.s(StmtKind::Print {
                dev: Dev::Screen,
                items: vec![e(lit("\u{c8}\u{c8}\u{c8}"))],
                using: Some("\\  \\<".into()),
            }),
            b.s(StmtKind::End),
        ];
        out.push(Witness {
            name: "fixed-using-string-field-in-characters",
            property: "C16",
            class: "Layout",
            key: "",
            what: "PRINT USING \"\\  \\\" of three characters above 127 printed two of them: the field width was applied to bytes (fix_length), as was the length of STRING * n values",
            case: case_of(main, vec![], b"", vec![]),
        });
    }
    // ---- USING minus sign inside the digit positions ----
    {
        let mut b = B(0);
        let main = vec![
            b.s(StmtKind::Print {
                dev: Dev::Screen,
                items: vec![e(int(-123))],
                using: Some("#,###|".into()),
            }),
            b.s(StmtKind::End),
        ];
        out.push(Witness {
            name: "fixed-using-minus-sign-position",
            property: "C16",
            class: "Layout",
            key: "",
            what: "PRINT USING \"#,###\"; -123 printed -,123: the sign was formatted as a digit, the thousands separator followed it",
            case: case_of(main, vec![], b"", vec![]),
        });
    }
    // ---- negative zero printed with a space and a minus ----
    {
        let mut b = B(0);
        let main = vec![
            b.print(
                Dev::Screen,
                vec![
                    e(Expr::Num(NumLit {
                        text: "(0 * (-1.5))".into(),
                        value: 0.0,
                    })),
                    PItem::Semi,
                    e(lit("|")),
                ],
            ),
            b.s(StmtKind::End),
        ];
        out.push(Witness {
            name: "fixed-negative-zero-printed-with-space-and-minus",
            property: "C16",
            class: "Layout",
            key: "",
            what: "PRINT 0 * (-1.5) wrote \" -0 \": a negative zero got the leading space of a non-negative number and the minus sign of its digits",
            case: case_of(main, vec![], b"", vec![]),
        });
    }
    // ---- RESUME after an error in an ELSEIF condition ----
    {
        let mut b = B(0);
        let quot = Expr::Quot(bx(int(6)));
        let then_b = vec![b.trace("a")];
        let b2 = vec![b.trace("b")];
        let else_b = vec![b.trace("c")];
        let mut main = vec![
            b.s(StmtKind::OnErrorGoto("H1".into())),
            b.s(StmtKind::If {
                cond: Expr::Cmp(CmpOp::Eq, bx(var("G1%")), bx(int(99))),
                then_b,
                elseifs: vec![(Expr::Cmp(CmpOp::Eq, bx(quot), bx(int(6))), b2)],
                else_b: Some(else_b),
            }),
            b.trace("done"),
            b.s(StmtKind::End),
            b.s(StmtKind::Label("H1".into())),
            b.s(StmtKind::Assign {
                var: "DZ%".into(),
                expr: int(1),
            }),
            b.s(StmtKind::Resume(ResumeKind::Bare)),
        ];
        let _ = &mut main;
        out.push(Witness {
            name: "fixed-resume-after-error-in-elseif-condition",
            property: "C05",
            class: "ControlFlow",
            key: "",
            what: "RESUME after an error in an ELSEIF condition left the whole IF statement instead of evaluating the condition again (the ELSEIF line had no statement address)",
            case: case_of(main, vec![], b"", vec![]),
        });
    }
    // ---- RESUME after an error in the expression of a later CASE ----
    {
        let mut b = B(0);
        let quot = Expr::Quot(bx(int(6)));
        let c1 = vec![b.trace("one")];
        let c2 = vec![b.trace("six")];
        let ce = vec![b.trace("else")];
        let main = vec![
            b.s(StmtKind::OnErrorGoto("H1".into())),
            b.s(StmtKind::Select {
                expr: int(6),
                cases: vec![
                    (vec![CaseSpec::Simple(int(1))], c1),
                    (vec![CaseSpec::Simple(quot)], c2),
                ],
                else_b: Some(ce),
            }),
            b.trace("done"),
            b.s(StmtKind::End),
            b.s(StmtKind::Label("H1".into())),
            b.s(StmtKind::Assign {
                var: "DZ%".into(),
                expr: int(1),
            }),
            b.s(StmtKind::Resume(ResumeKind::Bare)),
        ];
        out.push(Witness {
            name: "fixed-resume-after-error-in-later-case-expression",
            property: "C05",
            class: "ControlFlow",
            key: "",
            what: "RESUME after an error in the expression of the second or a later CASE jumped to END SELECT instead of evaluating the expression again",
            case: case_of(main, vec![], b"", vec![]),
        });
    }
    // ---- characters delivered before a device refused the rest were not counted ----
    {
        let mut b = B(0);
        let mut main = vec![
            b.s(StmtKind::OnErrorGoto("H1".into())),
            b.print(Dev::Screen, vec![e(lit("ABCDEFGH")), PItem::Semi]),
            b.print(Dev::Screen, vec![PItem::Comma, e(lit("y"))]),
        ];
        b.handler(&mut main);
        let mut short = fault(2, "write", "screen", "short_write", 50);
        short.fault.ordinal = 0;
        let mut hard = fault(2, "write", "screen", "err_storage_full", 0);
        hard.fault.ordinal = 1;
        out.push(Witness {
            name: "fixed-column-after-short-write-then-error",
            property: "C16",
            class: "Layout",
            key: "",
            what: "PRINT \"ABCDEFGH\"; cut short by the device (ABCD went out, the rest was refused with an error), RESUME NEXT, PRINT , \"y\": the comma padded from column 0 instead of column 4 (the characters that did go out were not counted)",
            case: case_of(main, vec![], b"", vec![short, hard]),
        });
    }
    // ---- GOSUB of the handler left behind by RESUME ----
    {
        let mut b = B(0);
        let main = vec![
            b.s(StmtKind::OnErrorGoto("H1".into())),
            b.s(StmtKind::Fail(FailKind::DivZero)),
            b.trace("after"),
            b.s(StmtKind::Return(None)),
            b.trace("after the stray RETURN"),
            b.s(StmtKind::End),
            b.s(StmtKind::Label("H1".into())),
            b.print(Dev::Screen, vec![e(lit("H")), PItem::Semi, e(Expr::Err)]),
            b.s(StmtKind::Gosub("HG1".into())),
            b.trace("never"),
            b.s(StmtKind::Label("HG1".into())),
            b.s(StmtKind::Resume(ResumeKind::Next)),
        ];
        out.push(Witness {
            name: "fixed-gosub-of-the-handler-left-behind-by-resume",
            property: "C05",
            class: "ControlFlow",
            key: "",
            what: "a handler that GOSUBs and RESUMEs from inside the routine left the return address on the GOSUB stack: a later stray RETURN of the program jumped into the handler instead of raising error 3",
            case: case_of(main, vec![], b"", vec![]),
        });
    }
    // ---- LSET goes by the oldest FIELD list ----
    {
        let mut b = B(0);
        let main = vec![
            b.s(StmtKind::Open {
                name: "R.DAT".into(),
                mode: Mode::Random,
                handle: 3,
                len: Some(12),
            }),
            b.s(StmtKind::Field {
                handle: 3,
                fields: vec![(4, "FA$".into()), (4, "FB$".into())],
            }),
            b.s(StmtKind::Field {
                handle: 3,
                fields: vec![(2, "FA$".into()), (6, "FB$".into())],
            }),
            b.s(StmtKind::Lset {
                var: "FA$".into(),
                expr: lit("ab"),
            }),
            b.s(StmtKind::Lset {
                var: "FB$".into(),
                expr: lit("widget"),
            }),
            b.s(StmtKind::Put { handle: 3, rec: 1 }),
            b.s(StmtKind::Get { handle: 3, rec: 1 }),
            b.print(
                Dev::Screen,
                vec![
                    e(lit("[")),
                    PItem::Semi,
                    e(Expr::SVar("FA$".into())),
                    PItem::Semi,
                    e(lit("][")),
                    PItem::Semi,
                    e(Expr::SVar("FB$".into())),
                    PItem::Semi,
                    e(lit("]")),
                ],
            ),
            b.s(StmtKind::Close(vec![])),
            b.s(StmtKind::End),
        ];
        out.push(Witness {
            name: "fixed-lset-goes-by-the-oldest-field-list",
            property: "C18",
            class: "FileData",
            key: "",
            what: "FIELD with the same variables and other widths, LSET, PUT: LSET made the older FIELD list current again, the record was written with the old widths",
            case: case_of(main, vec![], b"", vec![]),
        });
    }
    // ---- a handler's RETURN took the GOSUB of an interrupted subprogram ----
    {
        let mut b = B(0);
        let main = vec![
            b.s(StmtKind::OnErrorGoto("H1".into())),
            b.s(StmtKind::CallSub {
                name: "S2".into(),
                args: vec![int(1)],
            }),
            b.trace("back in main"),
            b.s(StmtKind::End),
            b.s(StmtKind::Label("H1".into())),
            b.s(StmtKind::Return(None)),
        ];
        let body = vec![
            b.s(StmtKind::Gosub("SB1".into())),
            b.trace("in the sub"),
            b.s(StmtKind::ExitProc),
            b.s(StmtKind::Label("SB1".into())),
            b.s(StmtKind::Fail(FailKind::DivZero)),
            b.s(StmtKind::Return(None)),
        ];
        out.push(Witness {
            name: "fixed-handler-return-took-the-gosub-of-a-subprogram",
            property: "C05",
            class: "ControlFlow",
            key: "",
            what: "an error inside a SUB that had a GOSUB pending, a handler that executes RETURN: the RETURN took the SUB's GOSUB and jumped into the SUB's code with the handler's context (context stack off by one, panic 'Not collecting arguments!') instead of raising RETURN without GOSUB",
            case: case_of(
                main,
                vec![Proc {
                    name: "S2".into(),
                    is_function: false,
                    params: vec!["P1%".into()],
                    body,
                    is_static: false,
                }],
                b"",
                vec![],
            ),
        });
    }
    out
}
