//! The simulated world: every source of environment behaviour the interpreter
//! can observe lives here, behind the seams (stdin `Read`, stdout / LPT1
//! `Write`, file system `VerifFs`, `Stdlib` environment, `Screen`).
//!
//! One `World` per simulated program run; the persistent part of the file
//! system (`FsStore`) can be carried from run to run (process restart: handles
//! die, files survive).

use std::cell::RefCell;
use std::collections::{BTreeMap, HashMap};
use std::io::{self, ErrorKind, Read, Seek, SeekFrom, Write};
use std::rc::Rc;

use rusty_basic::RuntimeError;
use rusty_basic::interpreter::Stdlib;
use rusty_basic::interpreter::verif::Screen;
use rusty_basic::interpreter::verif_fs::{OpenFlags, VerifFile, VerifFs};

use crate::prng::Fnv;

pub type StmtId = u32;
pub type Shared = Rc<RefCell<World>>;

/// Which seam an operation goes through.
#[derive(Clone, Copy, Debug, PartialEq, Eq, Hash, PartialOrd, Ord)]
pub enum Seam {
    Screen,
    Lpt1,
    Stdin,
    /// n-th file opened during this run (0-based)
    File(u32),
    /// path-level file system operation (open, remove, rename)
    Fs,
}

impl Seam {
    pub fn kind(&self) -> SeamKind {
        match self {
            Seam::Screen => SeamKind::Screen,
            Seam::Lpt1 => SeamKind::Lpt1,
            Seam::Stdin => SeamKind::Stdin,
            Seam::File(_) => SeamKind::File,
            Seam::Fs => SeamKind::Fs,
        }
    }
}

#[derive(Clone, Copy, Debug, PartialEq, Eq, Hash, PartialOrd, Ord)]
pub enum SeamKind {
    Screen,
    Lpt1,
    Stdin,
    File,
    Fs,
}

#[derive(Clone, Copy, Debug, PartialEq, Eq, Hash, PartialOrd, Ord)]
pub enum OpClass {
    Write,
    Flush,
    Read,
    Seek,
    Open,
    Remove,
    Rename,
}

#[derive(Clone, Copy, Debug, PartialEq, Eq, Hash, PartialOrd, Ord)]
pub enum IoKind {
    BrokenPipe,
    StorageFull,
    Other,
    PermissionDenied,
    NotFound,
    IsADirectory,
    TimedOut,
    InvalidData,
}

impl IoKind {
    pub fn to_error(self) -> io::Error {
        let k = match self {
            IoKind::BrokenPipe => ErrorKind::BrokenPipe,
            IoKind::StorageFull => ErrorKind::StorageFull,
            IoKind::Other => ErrorKind::Other,
            IoKind::PermissionDenied => ErrorKind::PermissionDenied,
            IoKind::NotFound => ErrorKind::NotFound,
            IoKind::IsADirectory => ErrorKind::IsADirectory,
            IoKind::TimedOut => ErrorKind::TimedOut,
            IoKind::InvalidData => ErrorKind::InvalidData,
        };
        io::Error::new(k, "injected fault")
    }
    pub const ALL_HARD: [IoKind; 5] = [
        IoKind::BrokenPipe,
        IoKind::StorageFull,
        IoKind::Other,
        IoKind::PermissionDenied,
        IoKind::TimedOut,
    ];
}

#[derive(Clone, Copy, Debug, PartialEq, Eq, Hash, PartialOrd, Ord)]
pub enum FaultKind {
    /// write accepts only part of the buffer (percentage of its length, 1..=99)
    ShortWrite(u8),
    /// write returns Ok(0)
    WriteZero,
    /// ErrorKind::Interrupted (EINTR)
    Interrupted,
    /// hard error
    Error(IoKind),
    /// read returns Ok(0) now and for ever after
    Eof,
    /// the next byte read is replaced
    SubstByte(u8),
    /// read returns fewer bytes than asked (at least one)
    ShortRead,
}

impl FaultKind {
    /// A fault the operation is allowed to absorb completely.
    pub fn is_transparent_candidate(&self) -> bool {
        matches!(
            self,
            FaultKind::ShortWrite(_) | FaultKind::Interrupted | FaultKind::ShortRead
        )
    }
    pub fn name(&self) -> &'static str {
        match self {
            FaultKind::ShortWrite(_) => "short_write",
            FaultKind::WriteZero => "write_zero",
            FaultKind::Interrupted => "interrupted",
            FaultKind::Error(IoKind::BrokenPipe) => "err_broken_pipe",
            FaultKind::Error(IoKind::StorageFull) => "err_storage_full",
            FaultKind::Error(IoKind::Other) => "err_other",
            FaultKind::Error(IoKind::PermissionDenied) => "err_permission_denied",
            FaultKind::Error(IoKind::NotFound) => "err_not_found",
            FaultKind::Error(IoKind::IsADirectory) => "err_is_a_directory",
            FaultKind::Error(IoKind::TimedOut) => "err_timed_out",
            FaultKind::Error(IoKind::InvalidData) => "err_invalid_data",
            FaultKind::Eof => "eof",
            FaultKind::SubstByte(_) => "subst_byte",
            FaultKind::ShortRead => "short_read",
        }
    }
}

#[derive(Clone, Copy, Debug, PartialEq, Eq, Hash, PartialOrd, Ord)]
pub enum FaultAddr {
    /// the `ordinal`-th operation of (class, seam kind) issued while statement
    /// `stmt` is executing for the `occ`-th time (occ counts from 1)
    Stmt { stmt: StmtId, occ: u32, ordinal: u32 },
    /// the `nth` operation of (class, seam kind) of the whole run (0-based)
    Global { nth: u32 },
    /// the `nth` operation of (class, seam kind) of the whole run and every one after
    /// it: a device that has failed for good (closed pipe, full disk, dead terminal)
    From { nth: u32 },
}

#[derive(Clone, Copy, Debug, PartialEq, Eq, Hash, PartialOrd, Ord)]
pub struct Fault {
    pub addr: FaultAddr,
    pub class: OpClass,
    pub seam: SeamKind,
    pub kind: FaultKind,
}

/// A fault that actually fired.
#[derive(Clone, Debug, PartialEq, Eq)]
pub struct Fired {
    pub fault: Fault,
    pub seam: Seam,
    pub stmt: Option<(StmtId, u32)>,
    pub seq: u64,
    pub instr: u64,
    /// stdin position at the time of the fault (for read faults on stdin)
    pub stdin_pos: usize,
}

/// Bytes delivered to a device by one seam call.
#[derive(Clone, Debug, PartialEq, Eq)]
pub struct Chunk {
    pub stmt: Option<(StmtId, u32)>,
    pub start: usize,
    pub len: usize,
    pub seq: u64,
}

#[derive(Clone, Debug, Default)]
pub struct Device {
    pub bytes: Vec<u8>,
    pub chunks: Vec<Chunk>,
}

/// Source span of one DSL statement in the emitted program text.
#[derive(Clone, Copy, Debug, PartialEq, Eq)]
pub struct Span {
    pub stmt: StmtId,
    pub row: u32,
    pub col_start: u32,
    /// inclusive
    pub col_end: u32,
}

/// Persistent part of the simulated file system.
#[derive(Clone, Debug, Default, PartialEq, Eq)]
pub struct FsStore {
    /// name -> inode
    pub names: BTreeMap<String, usize>,
    pub inodes: Vec<Vec<u8>>,
    /// names that are directories
    pub dirs: Vec<String>,
}

impl FsStore {
    pub fn put(&mut self, name: &str, content: &[u8]) {
        let id = self.inodes.len();
        self.inodes.push(content.to_vec());
        self.names.insert(name.to_string(), id);
    }
    pub fn get(&self, name: &str) -> Option<&Vec<u8>> {
        self.names.get(name).map(|i| &self.inodes[*i])
    }
    /// name -> content view (inode numbers are not part of the observable state)
    pub fn snapshot(&self) -> BTreeMap<String, Vec<u8>> {
        self.names
            .iter()
            .map(|(k, v)| (k.clone(), self.inodes[*v].clone()))
            .collect()
    }
    fn parent_exists(&self, name: &str) -> bool {
        match name.rfind('/') {
            None => true,
            Some(i) => self.dirs.iter().any(|d| d == &name[..i]),
        }
    }
}

#[derive(Clone, Debug)]
pub struct FileInst {
    pub path: String,
    pub inode: usize,
    pub flags: OpenFlags,
    pub cursor: usize,
    pub is_dir: bool,
    pub closed: bool,
    pub opened_by: Option<(StmtId, u32)>,
    /// every byte accepted through this instance, in order
    pub written: Vec<u8>,
    /// chunks of `written` attributed to statements
    pub chunks: Vec<Chunk>,
    /// file offset of each chunk
    pub offsets: Vec<usize>,
}

#[derive(Clone, Debug, PartialEq, Eq)]
pub enum EventKind {
    Stmt { stmt: StmtId, occ: u32 },
    Write { seam: Seam, offered: usize, accepted: usize, ok: bool },
    Flush { seam: Seam, ok: bool },
    Read { seam: Seam, asked: usize, got: usize, ok: bool },
    Seek { seam: Seam, to: u64, ok: bool },
    Open { path: String, flags: u8, inst: Option<u32>, err: Option<ErrorKind> },
    Close { seam: Seam },
    Remove { path: String, err: Option<ErrorKind> },
    Rename { from: String, to: String, err: Option<ErrorKind> },
    Fault { kind: FaultKind, class: OpClass, seam: Seam },
    Error { code: i32, row: u32, col: u32, dispatch: u8, target: usize },
    Screen { call: &'static str, a: i64, b: i64 },
    Env { set: bool, name: String },
    /// crash point of the fault plan
    Killed,
}

#[derive(Clone, Debug, PartialEq, Eq)]
pub struct Event {
    pub seq: u64,
    pub instr: u64,
    pub pc: usize,
    pub stmt: Option<(StmtId, u32)>,
    pub kind: EventKind,
}

pub struct World {
    // ---- attribution (maintained by the observer) ----
    pub spans: Vec<Span>,
    span_index: HashMap<u32, Vec<usize>>,
    pub occ: HashMap<StmtId, u32>,
    pub cur_stmt: Option<(StmtId, u32)>,
    pub cur_pc: usize,
    pub instr: u64,
    pub seq: u64,

    // ---- devices ----
    pub screen: Device,
    pub lpt1: Device,
    pub stdin: Vec<u8>,
    pub stdin_pos: usize,
    stdin_eof_sticky: bool,
    pub fs: FsStore,
    pub files: Vec<FileInst>,
    pub env: BTreeMap<String, String>,
    pub view_print: Option<(usize, usize)>,

    // ---- faults ----
    pub plan: Vec<Fault>,
    pub fired: Vec<Fired>,
    global_counts: HashMap<(OpClass, SeamKind), u32>,
    stmt_counts: HashMap<(StmtId, u32, OpClass, SeamKind), u32>,
    /// quota: total bytes the file system accepts in this run (None = unlimited)
    pub fs_quota: Option<usize>,
    pub fs_written: usize,
    /// crash point: the run is stopped when this many instructions have been executed
    /// header lines of block statements (errors raised while one is evaluated are
    /// attributed to (block statement, 0)); no statement events are produced for them
    pub header_spans: Vec<Span>,
    pub kill_at: Option<u64>,
    pub killed: bool,
    pub fs_at_kill: Option<FsStore>,
    pub writes_after_kill_discarded: bool,

    // ---- log ----
    pub log: Vec<Event>,
    pub log_enabled: bool,
    pub io_calls: u64,
    /// file operations bypass the simulated file system (fidelity runs only)
    pub real_fs: bool,
    /// row -> (first, last) column of the code on that line (from the emitter)
    pub code_lines: HashMap<u32, (u32, u32)>,
    /// first instruction whose position is not inside the code of any line: (pc, row, col)
    pub pos_off_table: Option<(usize, u32, u32)>,
}

impl World {
    pub fn new(spans: Vec<Span>, stdin: Vec<u8>, fs: FsStore, plan: Vec<Fault>) -> Self {
        let mut span_index: HashMap<u32, Vec<usize>> = HashMap::new();
        for (i, s) in spans.iter().enumerate() {
            span_index.entry(s.row).or_default().push(i);
        }
        Self {
            spans,
            span_index,
            occ: HashMap::new(),
            cur_stmt: None,
            cur_pc: 0,
            instr: 0,
            seq: 0,
            screen: Device::default(),
            lpt1: Device::default(),
            stdin,
            stdin_pos: 0,
            stdin_eof_sticky: false,
            fs,
            files: vec![],
            env: BTreeMap::new(),
            view_print: None,
            plan,
            fired: vec![],
            global_counts: HashMap::new(),
            stmt_counts: HashMap::new(),
            fs_quota: None,
            fs_written: 0,
            header_spans: vec![],
            kill_at: None,
            killed: false,
            fs_at_kill: None,
            writes_after_kill_discarded: false,
            log: vec![],
            log_enabled: true,
            io_calls: 0,
            real_fs: false,
            code_lines: HashMap::new(),
            pos_off_table: None,
        }
    }

    pub fn shared(self) -> Shared {
        Rc::new(RefCell::new(self))
    }

    /// Statement whose source span contains (row, col). The innermost
    /// (shortest) span wins, so a statement nested in a single-line IF is
    /// preferred over the IF itself.
    pub fn stmt_at(&self, row: u32, col: u32) -> Option<&Span> {
        let idxs = self.span_index.get(&row)?;
        let mut best: Option<&Span> = None;
        for i in idxs {
            let s = &self.spans[*i];
            if s.col_start <= col && col <= s.col_end {
                match best {
                    Some(b) if (b.col_end - b.col_start) <= (s.col_end - s.col_start) => {}
                    _ => best = Some(s),
                }
            }
        }
        best
    }

    pub fn header_at(&self, row: u32, col: u32) -> Option<StmtId> {
        self.header_spans
            .iter()
            .find(|s| s.row == row && s.col_start <= col && col <= s.col_end)
            .map(|s| s.stmt)
    }

    pub fn push_event(&mut self, kind: EventKind) {
        self.seq += 1;
        if self.log_enabled {
            let ev = Event {
                seq: self.seq,
                instr: self.instr,
                pc: self.cur_pc,
                stmt: self.cur_stmt,
                kind,
            };
            self.log.push(ev);
        }
    }

    /// Looks for a fault addressed at the operation about to happen; counts the operation.
    fn take_fault(&mut self, class: OpClass, seam: Seam) -> Option<FaultKind> {
        self.io_calls += 1;
        let sk = seam.kind();
        let g = self.global_counts.entry((class, sk)).or_insert(0);
        let nth = *g;
        *g += 1;
        let mut ordinal = None;
        if let Some((s, o)) = self.cur_stmt {
            let c = self.stmt_counts.entry((s, o, class, sk)).or_insert(0);
            ordinal = Some(*c);
            *c += 1;
        }
        if self.plan.is_empty() {
            return None;
        }
        let mut found = None;
        for f in self.plan.iter() {
            if f.class != class || f.seam != sk {
                continue;
            }
            let hit = match f.addr {
                FaultAddr::Global { nth: n } => n == nth,
                FaultAddr::From { nth: n } => nth >= n,
                FaultAddr::Stmt { stmt, occ, ordinal: ord } => {
                    self.cur_stmt == Some((stmt, occ)) && ordinal == Some(ord)
                }
            };
            if hit {
                found = Some(*f);
                break;
            }
        }
        found.map(|f| {
            self.note_fired(f, seam);
            f.kind
        })
    }

    fn note_fired(&mut self, f: Fault, seam: Seam) {
        self.push_event(EventKind::Fault {
            kind: f.kind,
            class: f.class,
            seam,
        });
        let fired = Fired {
            fault: f,
            seam,
            stmt: self.cur_stmt,
            seq: self.seq,
            instr: self.instr,
            stdin_pos: self.stdin_pos,
        };
        self.fired.push(fired);
    }

    /// A fault was matched but could not apply (e.g. short write of a 1-byte buffer).
    fn unfire(&mut self) {
        self.fired.pop();
        if self.log_enabled {
            self.log.pop();
        }
    }

    // ---------------- console devices ----------------

    fn device_write(&mut self, seam: Seam, buf: &[u8]) -> io::Result<usize> {
        let fault = self.take_fault(OpClass::Write, seam);
        let mut accept = buf.len();
        let mut result: io::Result<()> = Ok(());
        match fault {
            None => {}
            Some(FaultKind::ShortWrite(p)) => {
                if buf.len() >= 2 {
                    accept = (buf.len() * p as usize / 100).clamp(1, buf.len() - 1);
                } else {
                    self.unfire();
                }
            }
            Some(FaultKind::WriteZero) => {
                if buf.is_empty() {
                    self.unfire();
                } else {
                    accept = 0;
                }
            }
            Some(FaultKind::Interrupted) => {
                accept = 0;
                result = Err(io::Error::new(ErrorKind::Interrupted, "injected EINTR"));
            }
            Some(FaultKind::Error(k)) => {
                accept = 0;
                result = Err(k.to_error());
            }
            Some(_) => {
                self.unfire();
            }
        }
        let ok = result.is_ok();
        if accept > 0 {
            let stmt = self.cur_stmt;
            let seq = self.seq + 1;
            let dev = match seam {
                Seam::Screen => &mut self.screen,
                Seam::Lpt1 => &mut self.lpt1,
                _ => unreachable!(),
            };
            let start = dev.bytes.len();
            dev.bytes.extend_from_slice(&buf[..accept]);
            dev.chunks.push(Chunk {
                stmt,
                start,
                len: accept,
                seq,
            });
        }
        self.push_event(EventKind::Write {
            seam,
            offered: buf.len(),
            accepted: accept,
            ok,
        });
        result.map(|_| accept)
    }

    fn device_flush(&mut self, seam: Seam) -> io::Result<()> {
        let fault = self.take_fault(OpClass::Flush, seam);
        let result = match fault {
            Some(FaultKind::Error(k)) => Err(k.to_error()),
            Some(FaultKind::Interrupted) => {
                Err(io::Error::new(ErrorKind::Interrupted, "injected EINTR"))
            }
            Some(_) => {
                self.unfire();
                Ok(())
            }
            None => Ok(()),
        };
        self.push_event(EventKind::Flush {
            seam,
            ok: result.is_ok(),
        });
        result
    }

    fn stdin_read(&mut self, buf: &mut [u8]) -> io::Result<usize> {
        let seam = Seam::Stdin;
        let fault = self.take_fault(OpClass::Read, seam);
        let mut result: io::Result<usize>;
        if self.stdin_eof_sticky || buf.is_empty() {
            if fault.is_some() {
                self.unfire();
            }
            result = Ok(0);
        } else {
            let avail = self.stdin.len() - self.stdin_pos;
            match fault {
                Some(FaultKind::Eof) => {
                    self.stdin_eof_sticky = true;
                    result = Ok(0);
                }
                Some(FaultKind::Interrupted) => {
                    result = Err(io::Error::new(ErrorKind::Interrupted, "injected EINTR"));
                }
                Some(FaultKind::Error(k)) => {
                    result = Err(k.to_error());
                }
                Some(FaultKind::SubstByte(b)) => {
                    if avail == 0 {
                        self.unfire();
                        result = Ok(0);
                    } else {
                        buf[0] = b;
                        self.stdin_pos += 1;
                        result = Ok(1);
                    }
                }
                other => {
                    if other.is_some() {
                        self.unfire();
                    }
                    let n = avail.min(buf.len());
                    buf[..n].copy_from_slice(&self.stdin[self.stdin_pos..self.stdin_pos + n]);
                    self.stdin_pos += n;
                    result = Ok(n);
                }
            }
        }
        if let Ok(n) = &mut result {
            let n = *n;
            self.push_event(EventKind::Read {
                seam,
                asked: buf.len(),
                got: n,
                ok: true,
            });
        } else {
            self.push_event(EventKind::Read {
                seam,
                asked: buf.len(),
                got: 0,
                ok: false,
            });
        }
        result
    }

    // ---------------- file system ----------------

    fn fs_open(&mut self, path: &str, flags: OpenFlags) -> io::Result<u32> {
        let fault = self.take_fault(OpClass::Open, Seam::Fs);
        let fbits = (flags.read as u8)
            | (flags.write as u8) << 1
            | (flags.create as u8) << 2
            | (flags.truncate as u8) << 3
            | (flags.append as u8) << 4;
        let result: io::Result<u32> = (|| {
            match fault {
                Some(FaultKind::Error(k)) => return Err(k.to_error()),
                Some(_) => self.unfire(),
                None => {}
            }
            if path.is_empty() {
                return Err(io::Error::new(ErrorKind::NotFound, "empty path"));
            }
            let wants_write = flags.write || flags.append;
            if self.fs.dirs.iter().any(|d| d == path) {
                if wants_write || flags.create {
                    return Err(io::Error::new(ErrorKind::IsADirectory, "is a directory"));
                }
                let inst = self.files.len() as u32;
                self.files.push(FileInst {
                    path: path.to_string(),
                    inode: usize::MAX,
                    flags,
                    cursor: 0,
                    is_dir: true,
                    closed: false,
                    opened_by: self.cur_stmt,
                    written: vec![],
                    chunks: vec![],
                    offsets: vec![],
                });
                return Ok(inst);
            }
            let inode = match self.fs.names.get(path) {
                Some(i) => {
                    if flags.truncate && wants_write {
                        self.fs.inodes[*i].clear();
                    }
                    *i
                }
                None => {
                    if flags.create && wants_write {
                        if !self.fs.parent_exists(path) {
                            return Err(io::Error::new(ErrorKind::NotFound, "no such directory"));
                        }
                        self.fs.put(path, &[]);
                        self.fs.names[path]
                    } else {
                        return Err(io::Error::new(ErrorKind::NotFound, "no such file"));
                    }
                }
            };
            let inst = self.files.len() as u32;
            self.files.push(FileInst {
                path: path.to_string(),
                inode,
                flags,
                cursor: 0,
                is_dir: false,
                closed: false,
                opened_by: self.cur_stmt,
                written: vec![],
                chunks: vec![],
                offsets: vec![],
            });
            Ok(inst)
        })();
        self.push_event(EventKind::Open {
            path: path.to_string(),
            flags: fbits,
            inst: result.as_ref().ok().copied(),
            err: result.as_ref().err().map(|e| e.kind()),
        });
        result
    }

    fn fs_remove(&mut self, path: &str) -> io::Result<()> {
        let fault = self.take_fault(OpClass::Remove, Seam::Fs);
        let result = match fault {
            Some(FaultKind::Error(k)) => Err(k.to_error()),
            other => {
                if other.is_some() {
                    self.unfire();
                }
                if self.fs.dirs.iter().any(|d| d == path) {
                    Err(io::Error::new(ErrorKind::IsADirectory, "is a directory"))
                } else if self.fs.names.remove(path).is_some() {
                    Ok(())
                } else {
                    Err(io::Error::new(ErrorKind::NotFound, "no such file"))
                }
            }
        };
        self.push_event(EventKind::Remove {
            path: path.to_string(),
            err: result.as_ref().err().map(|e| e.kind()),
        });
        result
    }

    fn fs_rename(&mut self, from: &str, to: &str) -> io::Result<()> {
        let fault = self.take_fault(OpClass::Rename, Seam::Fs);
        let result = match fault {
            Some(FaultKind::Error(k)) => Err(k.to_error()),
            other => {
                if other.is_some() {
                    self.unfire();
                }
                if !self.fs.names.contains_key(from) {
                    Err(io::Error::new(ErrorKind::NotFound, "no such file"))
                } else if self.fs.dirs.iter().any(|d| d == to) {
                    Err(io::Error::new(ErrorKind::IsADirectory, "is a directory"))
                } else if !self.fs.parent_exists(to) {
                    Err(io::Error::new(ErrorKind::NotFound, "no such directory"))
                } else {
                    let inode = self.fs.names.remove(from).unwrap();
                    self.fs.names.insert(to.to_string(), inode);
                    Ok(())
                }
            }
        };
        self.push_event(EventKind::Rename {
            from: from.to_string(),
            to: to.to_string(),
            err: result.as_ref().err().map(|e| e.kind()),
        });
        result
    }

    fn file_write(&mut self, inst: u32, buf: &[u8]) -> io::Result<usize> {
        let seam = Seam::File(inst);
        let fault = self.take_fault(OpClass::Write, seam);
        let mut accept = buf.len();
        let mut result: io::Result<()> = Ok(());
        match fault {
            None => {}
            Some(FaultKind::ShortWrite(p)) => {
                if buf.len() >= 2 {
                    accept = (buf.len() * p as usize / 100).clamp(1, buf.len() - 1);
                } else {
                    self.unfire();
                }
            }
            Some(FaultKind::WriteZero) => {
                if buf.is_empty() {
                    self.unfire();
                } else {
                    accept = 0;
                }
            }
            Some(FaultKind::Interrupted) => {
                accept = 0;
                result = Err(io::Error::new(ErrorKind::Interrupted, "injected EINTR"));
            }
            Some(FaultKind::Error(k)) => {
                accept = 0;
                result = Err(k.to_error());
            }
            Some(_) => self.unfire(),
        }
        if result.is_ok() {
            let f = &self.files[inst as usize];
            if f.is_dir || !(f.flags.write || f.flags.append) {
                accept = 0;
                result = Err(io::Error::new(
                    ErrorKind::PermissionDenied,
                    "bad file descriptor",
                ));
            }
        }
        if result.is_ok() {
            if let Some(q) = self.fs_quota {
                let room = q.saturating_sub(self.fs_written);
                if room == 0 && !buf.is_empty() {
                    accept = 0;
                    result = Err(io::Error::new(ErrorKind::StorageFull, "quota exceeded"));
                    // the environment records the fault it injected
                    self.note_fired(
                        Fault {
                            addr: FaultAddr::Global { nth: q as u32 },
                            class: OpClass::Write,
                            seam: SeamKind::File,
                            kind: FaultKind::Error(IoKind::StorageFull),
                        },
                        seam,
                    );
                } else if accept > room {
                    accept = room;
                    self.note_fired(
                        Fault {
                            addr: FaultAddr::Global { nth: q as u32 },
                            class: OpClass::Write,
                            seam: SeamKind::File,
                            kind: FaultKind::ShortWrite(0),
                        },
                        seam,
                    );
                }
            }
        }
        if accept > 0 {
            let stmt = self.cur_stmt;
            let seq = self.seq + 1;
            let f = &mut self.files[inst as usize];
            let data = &mut self.fs.inodes[f.inode];
            if f.flags.append {
                f.cursor = data.len();
            }
            if f.cursor > data.len() {
                data.resize(f.cursor, 0);
            }
            let end = f.cursor + accept;
            if end > data.len() {
                data.resize(end, 0);
            }
            data[f.cursor..end].copy_from_slice(&buf[..accept]);
            let wstart = f.written.len();
            f.written.extend_from_slice(&buf[..accept]);
            f.chunks.push(Chunk {
                stmt,
                start: wstart,
                len: accept,
                seq,
            });
            f.offsets.push(f.cursor);
            f.cursor = end;
            self.fs_written += accept;
        }
        self.push_event(EventKind::Write {
            seam,
            offered: buf.len(),
            accepted: accept,
            ok: result.is_ok(),
        });
        result.map(|_| accept)
    }

    fn file_flush(&mut self, inst: u32) -> io::Result<()> {
        self.device_flush_file(inst)
    }

    fn device_flush_file(&mut self, inst: u32) -> io::Result<()> {
        let seam = Seam::File(inst);
        let fault = self.take_fault(OpClass::Flush, seam);
        let result = match fault {
            Some(FaultKind::Error(k)) => Err(k.to_error()),
            Some(FaultKind::Interrupted) => {
                Err(io::Error::new(ErrorKind::Interrupted, "injected EINTR"))
            }
            Some(_) => {
                self.unfire();
                Ok(())
            }
            None => Ok(()),
        };
        self.push_event(EventKind::Flush {
            seam,
            ok: result.is_ok(),
        });
        result
    }

    fn file_read(&mut self, inst: u32, buf: &mut [u8]) -> io::Result<usize> {
        let seam = Seam::File(inst);
        let fault = self.take_fault(OpClass::Read, seam);
        let result: io::Result<usize> = (|| {
            let mut short = false;
            match fault {
                Some(FaultKind::Interrupted) => {
                    return Err(io::Error::new(ErrorKind::Interrupted, "injected EINTR"));
                }
                Some(FaultKind::Error(k)) => return Err(k.to_error()),
                Some(FaultKind::ShortRead) => short = true,
                Some(_) => self.unfire(),
                None => {}
            }
            let f = &mut self.files[inst as usize];
            if f.is_dir {
                return Err(io::Error::new(ErrorKind::IsADirectory, "is a directory"));
            }
            if !f.flags.read {
                return Err(io::Error::new(
                    ErrorKind::PermissionDenied,
                    "bad file descriptor",
                ));
            }
            let data = &self.fs.inodes[f.inode];
            let avail = data.len().saturating_sub(f.cursor);
            let mut n = avail.min(buf.len());
            if short {
                if n >= 2 {
                    n = 1 + (n - 1) / 2;
                } else {
                    // cannot be made shorter; not a fault
                    short = false;
                }
            }
            if n > 0 {
                buf[..n].copy_from_slice(&data[f.cursor..f.cursor + n]);
            }
            f.cursor += n;
            if fault == Some(FaultKind::ShortRead) && !short {
                self.unfire();
            }
            Ok(n)
        })();
        self.push_event(EventKind::Read {
            seam,
            asked: buf.len(),
            got: *result.as_ref().unwrap_or(&0),
            ok: result.is_ok(),
        });
        result
    }

    fn file_seek(&mut self, inst: u32, pos: SeekFrom) -> io::Result<u64> {
        let seam = Seam::File(inst);
        let fault = self.take_fault(OpClass::Seek, seam);
        let result: io::Result<u64> = (|| {
            match fault {
                Some(FaultKind::Error(k)) => return Err(k.to_error()),
                Some(_) => self.unfire(),
                None => {}
            }
            let f = &mut self.files[inst as usize];
            if f.is_dir {
                return Err(io::Error::new(ErrorKind::IsADirectory, "is a directory"));
            }
            let len = self.fs.inodes[f.inode].len() as i64;
            let target: i64 = match pos {
                SeekFrom::Start(p) => p as i64,
                SeekFrom::End(d) => len + d,
                SeekFrom::Current(d) => f.cursor as i64 + d,
            };
            if target < 0 {
                return Err(io::Error::new(ErrorKind::InvalidInput, "negative seek"));
            }
            f.cursor = target as usize;
            Ok(target as u64)
        })();
        self.push_event(EventKind::Seek {
            seam,
            to: *result.as_ref().unwrap_or(&u64::MAX),
            ok: result.is_ok(),
        });
        result
    }

    fn file_close(&mut self, inst: u32) {
        self.files[inst as usize].closed = true;
        self.push_event(EventKind::Close {
            seam: Seam::File(inst),
        });
    }

    // ---------------- digest ----------------

    /// Digest of the full event log plus the final device / store contents.
    pub fn digest(&self) -> u64 {
        let mut h = Fnv::default();
        for ev in &self.log {
            // CLOSE (all) drops the handles of a HashMap in its iteration order, which is
            // not seeded; the order in which files are closed is not observable
            if let EventKind::Close { .. } = ev.kind {
                h.u64(0xC105E);
                continue;
            }
            h.u64(ev.seq);
            h.u64(ev.instr);
            h.u64(ev.pc as u64);
            if let Some((s, o)) = ev.stmt {
                h.u64(s as u64);
                h.u64(o as u64);
            }
            h.str(&format!("{:?}", ev.kind));
        }
        h.bytes(&self.screen.bytes);
        h.bytes(&[0xfe]);
        h.bytes(&self.lpt1.bytes);
        h.bytes(&[0xfe]);
        for (k, v) in self.fs.snapshot() {
            h.str(&k);
            h.bytes(&v);
            h.bytes(&[0xfd]);
        }
        h.u64(self.instr);
        h.0
    }
}

// ======================= seam adapters =======================

pub struct SimWrite {
    pub world: Shared,
    pub seam: Seam,
}

impl Write for SimWrite {
    fn write(&mut self, buf: &[u8]) -> io::Result<usize> {
        self.world.borrow_mut().device_write(self.seam, buf)
    }
    fn flush(&mut self) -> io::Result<()> {
        self.world.borrow_mut().device_flush(self.seam)
    }
}

pub struct SimRead {
    pub world: Shared,
}

impl Read for SimRead {
    fn read(&mut self, buf: &mut [u8]) -> io::Result<usize> {
        self.world.borrow_mut().stdin_read(buf)
    }
}

pub struct SimFile {
    world: Shared,
    inst: u32,
}

impl Read for SimFile {
    fn read(&mut self, buf: &mut [u8]) -> io::Result<usize> {
        self.world.borrow_mut().file_read(self.inst, buf)
    }
}
impl Write for SimFile {
    fn write(&mut self, buf: &[u8]) -> io::Result<usize> {
        self.world.borrow_mut().file_write(self.inst, buf)
    }
    fn flush(&mut self) -> io::Result<()> {
        self.world.borrow_mut().file_flush(self.inst)
    }
}
impl Seek for SimFile {
    fn seek(&mut self, pos: SeekFrom) -> io::Result<u64> {
        self.world.borrow_mut().file_seek(self.inst, pos)
    }
}
impl Drop for SimFile {
    fn drop(&mut self) {
        if let Ok(mut w) = self.world.try_borrow_mut() {
            w.file_close(self.inst);
        }
    }
}

pub struct SimFs {
    pub world: Shared,
}

impl VerifFs for SimFs {
    fn open(&mut self, path: &str, flags: OpenFlags) -> io::Result<Box<dyn VerifFile>> {
        let inst = self.world.borrow_mut().fs_open(path, flags)?;
        Ok(Box::new(SimFile {
            world: self.world.clone(),
            inst,
        }))
    }
    fn remove_file(&mut self, path: &str) -> io::Result<()> {
        self.world.borrow_mut().fs_remove(path)
    }
    fn rename(&mut self, from: &str, to: &str) -> io::Result<()> {
        self.world.borrow_mut().fs_rename(from, to)
    }
}

pub struct SimEnv {
    pub world: Shared,
}

impl Stdlib for SimEnv {
    fn system(&self) {}
    fn get_env_var(&self, name: &str) -> String {
        let mut w = self.world.borrow_mut();
        w.push_event(EventKind::Env {
            set: false,
            name: name.to_string(),
        });
        w.env.get(name).cloned().unwrap_or_default()
    }
    fn set_env_var(&mut self, name: String, value: String) {
        // the contract of the real seam (std::env::set_var): "may panic if key is empty,
        // contains an ASCII equals sign '=' or the NUL character, or when value contains
        // the NUL character" - it does, on this platform
        if name.is_empty() || name.contains('=') || name.contains('\0') || value.contains('\0') {
            panic!(
                "failed to set environment variable `{:?}` to `{:?}`: Invalid argument (simulated std::env::set_var)",
                name, value
            );
        }
        let mut w = self.world.borrow_mut();
        w.push_event(EventKind::Env {
            set: true,
            name: name.clone(),
        });
        w.env.insert(name, value);
    }
}

pub struct SimScreen {
    pub world: Shared,
}

impl SimScreen {
    fn rec(&self, call: &'static str, a: i64, b: i64) {
        self.world
            .borrow_mut()
            .push_event(EventKind::Screen { call, a, b });
    }
}

impl Screen for SimScreen {
    fn cls(&self) -> Result<(), RuntimeError> {
        self.rec("cls", 0, 0);
        Ok(())
    }
    fn background_color(&self, color: i32) -> Result<(), RuntimeError> {
        self.rec("bg", color as i64, 0);
        if (0..16).contains(&color) {
            Ok(())
        } else {
            Err(RuntimeError::IllegalFunctionCall)
        }
    }
    fn foreground_color(&self, color: i32) -> Result<(), RuntimeError> {
        self.rec("fg", color as i64, 0);
        if (0..16).contains(&color) {
            Ok(())
        } else {
            Err(RuntimeError::IllegalFunctionCall)
        }
    }
    fn move_to(&self, row: u16, col: u16) -> Result<(), RuntimeError> {
        self.rec("move_to", row as i64, col as i64);
        Ok(())
    }
    fn show_cursor(&self) -> Result<(), RuntimeError> {
        self.rec("show_cursor", 0, 0);
        Ok(())
    }
    fn hide_cursor(&self) -> Result<(), RuntimeError> {
        self.rec("hide_cursor", 0, 0);
        Ok(())
    }
    fn get_view_print(&self) -> Option<(usize, usize)> {
        self.world.borrow().view_print
    }
    fn set_view_print(&mut self, start_row: usize, end_row: usize) {
        self.rec("view_print", start_row as i64, end_row as i64);
        self.world.borrow_mut().view_print = Some((start_row, end_row));
    }
    fn reset_view_print(&mut self) {
        self.rec("view_print_reset", 0, 0);
        self.world.borrow_mut().view_print = None;
    }
}
