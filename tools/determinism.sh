#!/bin/bash
# Determinism proof: (1) the self-test digests of 3 x N scenarios (fault-free + one fault
# plan each) are identical in two fresh processes; (2) a check gives the identical evidence
# (all counts, all digest sets) with 1 worker and with 16 workers.
set -e
cd /verif/sim
cargo build --release --offline >/dev/null 2>&1
N=${1:-300}
T=$(mktemp -d /verif/sim/target/det.XXXXXX)
./target/release/rbsim selftest $N > $T/a.txt 2>&1
./target/release/rbsim selftest $N > $T/b.txt 2>&1
cmp $T/a.txt $T/b.txt && echo "selftest: $(wc -l < $T/a.txt) digest lines identical in two processes"
for id in C05 C16 C18; do
  for t in 1 16; do
    mkdir -p $T/$id-$t; cp /verif/known_findings.json $T/$id-$t/; cp -r /verif/witness $T/$id-$t/
    VERIF_DIR=$T/$id-$t VERIF_THREADS=$t VERIF_SCALE=0.05 ./target/release/rbsim check $id quick > $T/$id-$t/out.txt 2>&1 || true
  done
  python3 - $T $id <<'P'
import json,sys
T,id=sys.argv[1],sys.argv[2]
a=json.load(open(f'{T}/{id}-1/evidence/{id}.json')); b=json.load(open(f'{T}/{id}-16/evidence/{id}.json'))
for e in (a,b):
    e.pop('wall_s'); e['coverage'].pop('runs_per_hour')
print(f"{id}: evidence identical with 1 and 16 workers: {a==b} ({a['coverage']['evaluations']} runs, {a['coverage']['distinct_event_log_digests']} distinct digests)")
sys.exit(0 if a==b else 1)
P
done
rm -rf $T
