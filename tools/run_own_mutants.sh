#!/bin/bash
# Applies each of the hand-written sensitivity mutants (seeded/own/*.diff) to /repo, runs the
# quick check of the property it was written for (plus C08 and C15), records the exit codes.
cd /verif
OUT=/verif/seeded/own/results.tsv
: > $OUT
if [ -n "$(git -C /repo status --porcelain)" ]; then echo "/repo is not clean"; exit 2; fi
for f in seeded/own/m*.diff; do
  n=$(basename $f .diff)
  if ! git -C /repo apply --check /verif/$f 2>/dev/null; then echo -e "$n\tAPPLY-FAIL" >> $OUT; continue; fi
  prop=$(python3 -c "import json;print([x[1] for x in json.load(open('/verif/seeded/own/tests.json')) if x[0]=='$n'][0])")
  tests=$(python3 -c "import json;print([x[2] for x in json.load(open('/verif/seeded/own/tests.json')) if x[0]=='$n'][0])")
  git -C /repo apply /verif/$f
  line="$n\t$prop\t$tests"
  for id in $prop; do
    timeout 1200 ./check $id quick > /verif/seeded/own/$n.$id.log 2>&1
    line="$line\t$id=$?"
  done
  git -C /repo checkout -- .
  echo -e "$line" >> $OUT
done
git -C /verif checkout -- evidence 2>/dev/null
rm -rf /verif/replays
echo DONE >> $OUT
