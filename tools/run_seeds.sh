#!/bin/bash
# Applies every seeded change under /verif/seeded to /repo (working tree only), runs the
# quick checks, records which check reported a violation, and reverts /repo.
# usage: tools/run_seeds.sh [seed-dir ...]   (default: all)
cd /verif
OUT=/verif/seeded/results.tsv
[ $# -eq 0 ] && : > $OUT
SEEDS="$@"
[ -z "$SEEDS" ] && SEEDS=$(ls -d seeded/C*_* | xargs -n1 basename)
if [ -n "$(git -C /repo status --porcelain)" ]; then echo "/repo is not clean"; exit 2; fi
for s in $SEEDS; do
  if ! git -C /repo apply --check /verif/seeded/$s/patch.diff 2>/dev/null; then echo -e "$s\tAPPLY-FAIL" >> $OUT; continue; fi
  git -C /repo apply /verif/seeded/$s/patch.diff
  line="$s"
  for id in ${CHECKS:-C05 C08 C11 C15 C16 C18}; do
    log=/verif/seeded/$s/check_$id.log
    VERIF_DIR=/verif timeout 1200 ./check $id quick > $log 2>&1
    rc=$?
    # evidence files are rewritten by the runs; restore them afterwards
    line="$line\t$id=$rc"
  done
  git -C /repo checkout -- .
  echo -e "$line" >> $OUT
done
git -C /verif checkout -- evidence 2>/dev/null
rm -rf /verif/replays
echo DONE >> $OUT
