#!/bin/bash
# Runs the quick checks against seeded changes WITHOUT touching /repo: for every seed a
# scratch copy of /repo's HEAD and of /verif (simulator sources, witnesses, known findings)
# is made under $SWEEP_ROOT (default /tmp/sweep), the patch is applied to the copy, the
# simulator is built against the copy and the checks are run there. Several seeds run in
# parallel (SWEEP_JOBS, default 3), each with VERIF_THREADS workers (default 5).
# usage: tools/sweep_scratch.sh <out.tsv> seed-dir ...
# The copies are removed as soon as a seed is done.
OUT=$1; shift
ROOT=${SWEEP_ROOT:-/tmp/sweep}
JOBS=${SWEEP_JOBS:-3}
export VERIF_THREADS=${VERIF_THREADS:-5}
# a loaded machine must not cut the scenario counts of the quick tier
export VERIF_WALL_S=${VERIF_WALL_S:-600}
CHECKS=${CHECKS:-C05 C08 C11 C15 C16 C18}
mkdir -p $ROOT
# one snapshot of /verif (working tree, as it is now) for the whole sweep, so that edits made
# while the sweep runs do not leak into it
SRC=$ROOT/_src_$$
rm -rf $SRC; mkdir -p $SRC
if [ -n "${SWEEP_REV:-}" ]; then
  # the machinery as committed at $SWEEP_REV (for "blind" sweeps of changes that arrived then)
  git -C /verif archive $SWEEP_REV -- . ':!seeded' | tar -x -C $SRC
else
  (cd /verif && tar -c --exclude=sim/target --exclude=replays --exclude=seeded --exclude=.git .) | tar -x -C $SRC
fi
one() {
  s=$1
  d=$ROOT/$s
  rm -rf $d; mkdir -p $d/repo $d/verif
  git -C /repo archive HEAD | tar -x -C $d/repo
  cp -r $SRC/. $d/verif/
  sed -i "s#/repo/#$d/repo/#g" $d/verif/sim/Cargo.toml
  if ! (cd $d/repo && git apply /verif/seeded/$s/patch.diff 2>/dev/null); then
    echo -e "$s\tAPPLY-FAIL"; rm -rf $d; return
  fi
  line="$s"
  if ! (cd $d/verif/sim && CARGO_NET_OFFLINE=true cargo build --release --offline -j 6 > $d/build.log 2>&1); then
    mkdir -p /verif/seeded/$s/sweep; cp $d/build.log /verif/seeded/$s/sweep/build.log
    echo -e "$s\tBUILD-FAIL"; rm -rf $d; return
  fi
  mkdir -p /verif/seeded/$s/sweep
  for id in $CHECKS; do
    (cd $d/verif/sim && VERIF_DIR=$d/verif VERIF_REPO=$d/repo VERIF_TIER=quick timeout 1500 ./target/release/rbsim check $id quick > /verif/seeded/$s/sweep/check_$id.log 2>&1)
    rc=$?
    line="$line\t$id=$rc"
  done
  rm -rf $d
  echo -e "$line"
}
export -f one; export ROOT CHECKS SRC
printf "%s\n" "$@" | xargs -P $JOBS -I{} bash -c 'one {}' >> $OUT
rm -rf $SRC
echo DONE >> $OUT
