#!/bin/bash
# Confirms a seeded change independently: the patch applies to /repo's HEAD, the tree builds,
# the complete existing test suite passes with it, and the demonstration gives expected.txt
# on the unchanged tree and something else with the change.
# usage: tools/verify_seed.sh <seed-id> [<seed-id> ...]     (directories under /verif/seeded)
# Works in scratch worktrees under /tmp/vs (removed afterwards); /repo is not touched.
set -u
ROOT=/tmp/vs
mkdir -p $ROOT
BASE=$ROOT/base
if [ ! -x $BASE/target/debug/rusty_basic ]; then
  rm -rf $BASE; git -C /repo worktree prune
  git -C /repo worktree add --detach $BASE HEAD >/dev/null 2>&1
  (cd $BASE && CARGO_NET_OFFLINE=true cargo build --offline -j ${JOBS:-8} >/dev/null 2>&1)
fi
for s in "$@"; do
  d=/verif/seeded/$s
  wt=$ROOT/$s
  rm -rf $wt; git -C /repo worktree prune
  git -C /repo worktree add --detach $wt HEAD >/dev/null 2>&1
  if ! git -C $wt apply $d/patch.diff 2>/dev/null; then echo "$s APPLY-FAIL"; git -C /repo worktree remove --force $wt; continue; fi
  res=$(cd $wt && CARGO_NET_OFFLINE=true cargo test --workspace --no-fail-fast --offline -j ${JOBS:-8} 2>&1 | grep -E "^test result" | awk '{p+=$4; f+=$6} END {print p" passed "f" failed"}')
  (cd $wt && CARGO_NET_OFFLINE=true cargo build --offline -j ${JOBS:-8} >/dev/null 2>&1)
  demo="no-run.sh"
  if [ -f $d/run.sh ]; then
    t1=$(mktemp -d); t2=$(mktemp -d)
    (cd $t1 && timeout 60 bash $d/run.sh $BASE/target/debug/rusty_basic > $d/verified_base.txt 2>&1)
    (cd $t2 && timeout 60 bash $d/run.sh $wt/target/debug/rusty_basic > $d/verified_mut.txt 2>&1)
    rm -rf $t1 $t2
    if cmp -s $d/verified_base.txt $d/expected.txt; then b="base=expected"; else b="base!=expected"; fi
    if cmp -s $d/verified_base.txt $d/verified_mut.txt; then m="SAME"; else m="DIFFERS"; fi
    demo="$b demo:$m"
  fi
  echo "$s APPLIES tests: $res $demo"
  git -C /repo worktree remove --force $wt
done
