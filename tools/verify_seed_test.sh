#!/bin/bash
# For seeds whose demonstration is a Rust integration test (demo_test.rs, needs the
# verif feature): runs it on the unchanged tree and with the patch.
# usage: tools/verify_seed_test.sh <seed-id> <test-name>
s=$1; t=$2; d=/verif/seeded/$s
wt=/tmp/vs/t_$s
rm -rf $wt; git -C /repo worktree prune
git -C /repo worktree add --detach $wt HEAD >/dev/null 2>&1
mkdir -p $wt/rusty_basic/tests; cp $d/demo_test.rs $wt/rusty_basic/tests/$t.rs
b=$(cd $wt && CARGO_NET_OFFLINE=true cargo test --offline -j ${JOBS:-4} -p rusty_basic --features verif --test $t 2>&1 | grep -E "^test result" | head -1)
git -C $wt apply $d/patch.diff
m=$(cd $wt && CARGO_NET_OFFLINE=true cargo test --offline -j ${JOBS:-4} -p rusty_basic --features verif --test $t 2>&1 | grep -E "^test result" | head -1)
echo "$s test $t: unchanged tree: $b | with the change: $m"
git -C /repo worktree remove --force $wt
